"""Process environment: where eko comes from, interpreter settings."""

import os
import sys

VERIF = os.path.dirname(os.path.dirname(os.path.abspath(__file__)))


def repo_root() -> str:
    return os.environ.get("EKOSIM_REPO", "/repo")


def setup():
    """Make `import eko` resolve to $EKOSIM_REPO/src, interpreted kernels."""
    os.environ["NUMBA_DISABLE_JIT"] = "1"
    src = os.path.join(repo_root(), "src")
    if not os.path.isdir(os.path.join(src, "eko")):
        raise RuntimeError(f"HARNESS-ERROR no eko sources under {src}")
    # strip any other eko source dir, then put ours first
    sys.path[:] = [p for p in sys.path if os.path.abspath(p or ".") != src]
    sys.path.insert(0, src)
    if VERIF not in sys.path:
        sys.path.insert(1, VERIF)
    # silence eko logging (the banner etc.); logging must never matter
    import logging

    logging.disable(logging.CRITICAL)
    import warnings

    warnings.filterwarnings("ignore")


def assert_eko_from_repo():
    import eko

    src = os.path.join(repo_root(), "src")
    here = os.path.abspath(eko.__file__)
    if not here.startswith(os.path.abspath(src) + os.sep):
        raise RuntimeError(f"HARNESS-ERROR eko imported from {here}, expected {src}")


def reexec_with_hashseed(value: str = "0"):
    """Re-exec the interpreter once so that PYTHONHASHSEED is pinned."""
    if os.environ.get("PYTHONHASHSEED") != value and not os.environ.get(
        "EKOSIM_NO_REEXEC"
    ):
        env = dict(os.environ)
        env["PYTHONHASHSEED"] = value
        env["NUMBA_DISABLE_JIT"] = "1"
        env["EKOSIM_NO_REEXEC"] = "1"
        os.execve(sys.executable, [sys.executable] + sys.argv, env)
