"""Per-property configuration and the check driver."""

import json
import os
import subprocess
import sys
import time

from . import batch, env

REAL_PERF = time.perf_counter

SEED_STRIDE = 1_000_000

CONFIG = {
    "C38": dict(
        engine="crash",
        level="fault_enumeration",
        tiers=dict(
            quick=dict(runs=56, opts=dict(faultspec=dict(mode="sample", count=40, interrupts=3, kills=3, tail_prob=0.2, tail_max=1), real_frac=0.15, real_count=10, pairs=0, limit=300)),
            thorough=dict(runs=960, opts=dict(faultspec=dict(mode="all", interrupts=16, kills=12, tail_prob=0.1, tail_max=2), slices=8, real_frac=0.08, real_count=16, pairs=1, limit=900)),
        ),
        det=dict(quick=8, thorough=8),
        extra_stages=[
            dict(
                name="multi-session histories with faults (crash recovery across sessions)",
                engine="store",
                runs=dict(quick=1000, thorough=60000),
                opts=dict(config="c38h"),
            )
        ],
    ),
    "C02": dict(
        engine="runner",
        level="exploration",
        tiers=dict(
            quick=dict(runs=1200, opts=dict(real_frac=0.02, limit=300)),
            thorough=dict(runs=250000, opts=dict(real_frac=0.006, limit=600)),
        ),
        det=dict(quick=32, thorough=128),
    ),
    "C03": dict(
        engine="pool",
        level="exploration",
        tiers=dict(
            quick=dict(runs=128, opts=dict(n_widths=3, n_schedules=2, limit=300)),
            thorough=dict(runs=3200, opts=dict(n_widths=4, n_schedules=3, w_fidelity=0.3, limit=600)),
        ),
        det=dict(quick=16, thorough=48),
    ),
    "C47": dict(
        engine="repro",
        level="exploration",
        tiers=dict(
            quick=dict(runs=16, opts=dict(cards_per_case=4, limit=600)),
            thorough=dict(runs=400, opts=dict(cards_per_case=6, limit=900)),
        ),
        det=dict(quick=8, thorough=24),
    ),
    "C17": dict(
        engine="couplings",
        level="exploration",
        tiers=dict(
            quick=dict(runs=3000, opts=dict()),
            thorough=dict(runs=800000, opts=dict()),
        ),
        det=dict(quick=32, thorough=256),
    ),
    "C24": dict(
        engine="hcache",
        level="exploration",
        tiers=dict(
            quick=dict(runs=1600, opts=dict()),
            thorough=dict(runs=1500000, opts=dict()),
        ),
        det=dict(quick=32, thorough=256),
    ),
    "C37": dict(
        engine="store",
        level="exploration",
        tiers=dict(
            quick=dict(runs=2000, opts=dict(config="c37")),
            thorough=dict(runs=200000, opts=dict(config="c37")),
        ),
        det=dict(quick=32, thorough=256),
    ),
    "C36": dict(
        engine="store",
        level="exploration",
        tiers=dict(
            quick=dict(runs=1500, opts=dict(config="c36")),
            thorough=dict(runs=150000, opts=dict(config="c36")),
        ),
        det=dict(quick=32, thorough=256),
    ),
    "C39": dict(
        engine="store",
        level="exploration",
        tiers=dict(
            quick=dict(runs=2000, opts=dict(config="c39")),
            thorough=dict(runs=200000, opts=dict(config="c39")),
        ),
        det=dict(quick=32, thorough=256),
    ),
}


def out(*a):
    print(*a, flush=True)


def seeds_for(args, runs):
    base = int(args.seed) * SEED_STRIDE
    return [base + i for i in range(runs)]


def tier_cfg(prop, tier):
    cfg = CONFIG[prop]
    if tier not in cfg["tiers"]:
        raise batch.HarnessError(f"unknown tier {tier}")
    return cfg, cfg["tiers"][tier]


def _stage_cfg(cfg, tc, stage):
    if stage is None:
        return cfg["engine"], tc["opts"]
    st = cfg["extra_stages"][stage]
    return st["engine"], st["opts"]


def print_digests(args):
    cfg, tc = tier_cfg(args.prop, args.tier)
    engine, opts = _stage_cfg(cfg, tc, args.stage)
    a, b = args.seeds.split(":")
    seeds = list(range(int(a), int(b)))
    res = batch.run_seeds(engine, seeds, args.tier, args.jobs, opts)
    for r in res:
        if r.get("harness_error"):
            out(f"DIGEST {r['seed']} HARNESS {r['harness_error'][:200]!r}")
        else:
            out(f"DIGEST {r['seed']} {r.get('digest')} {len(r['violations'])} {batch.violation_class(r)}")
    return 0


def determinism_stage(args, cfg, tc, n):
    """Same seeds: this process pool vs fresh interpreters with other hash
    seeds and worker counts; digests and verdicts must agree.  Covers the main
    engine and every extra stage of the property."""
    tot = dict(seeds=0, comparisons=0, mismatches=0, detail=[])
    for stage in [None] + list(range(len(cfg.get("extra_stages", [])))):
        engine, opts = _stage_cfg(cfg, tc, stage)
        seeds = seeds_for(args, n if stage is None else 4 * n)
        mine = batch.run_seeds(engine, seeds, args.tier, args.jobs, opts)
        ref = {r["seed"]: (r.get("digest"), len(r["violations"]), batch.violation_class(r), bool(r.get("harness_error"))) for r in mine}
        tot["seeds"] += len(seeds)
        for hashseed, jobs in (("12345", 1), ("987", max(2, args.jobs // 2))):
            e = dict(os.environ)
            e["PYTHONHASHSEED"] = hashseed
            e["EKOSIM_NO_REEXEC"] = "1"
            cmd = [sys.executable, os.path.join(env.VERIF, "check.py"), args.prop, "--tier", args.tier, "--digests", "--seeds", f"{seeds[0]}:{seeds[-1] + 1}", "--jobs", str(jobs)]
            if stage is not None:
                cmd += ["--stage", str(stage)]
            p = subprocess.run(cmd, env=e, capture_output=True, text=True, timeout=3600)
            if p.returncode != 0:
                raise batch.HarnessError(f"determinism stage subprocess failed: {p.stdout[-2000:]} {p.stderr[-2000:]}")
            for line in p.stdout.splitlines():
                if not line.startswith("DIGEST "):
                    continue
                _, s, dg, nv, cls = line.split(" ", 4) if line.count(" ") >= 4 else (line.split(" ") + [""])[:5]
                s = int(s)
                tot["comparisons"] += 1
                got = (dg, int(nv) if nv.isdigit() else -1, None if cls == "None" else cls)
                exp = (str(ref[s][0]), ref[s][1], ref[s][2])
                if got != exp:
                    tot["mismatches"] += 1
                    tot["detail"].append(dict(stage=stage, seed=s, hashseed=hashseed, jobs=jobs, got=got, expected=exp))
    tot["detail"] = tot["detail"][:5]
    return tot


def selftest(args):
    cfg, tc = tier_cfg(args.prop, args.tier)
    if args.selftest != "determinism":
        raise batch.HarnessError("unknown selftest")
    n = args.runs or cfg.get("det", {}).get(args.tier, 16)
    d = determinism_stage(args, cfg, tc, n)
    out(json.dumps(d, indent=1))
    if d["mismatches"]:
        out("HARNESS-ERROR simulator is not deterministic")
        return batch.EXIT_HARNESS
    out(f"determinism ok: {d['seeds']} seeds, {d['comparisons']} comparisons")
    return 0


def run_check(args):
    prop = args.prop
    cfg, tc = tier_cfg(prop, args.tier)
    mod = batch.engine_module(cfg["engine"])
    runs = args.runs or tc["runs"]
    seeds = seeds_for(args, runs)
    t0 = REAL_PERF()
    det = None
    if args.tier == "thorough" and cfg.get("det") and not args.runs:
        det = determinism_stage(args, cfg, tc, cfg["det"]["thorough"])
        if det["mismatches"]:
            out("HARNESS-ERROR simulator is not deterministic: " + json.dumps(det["detail"]))
            return batch.EXIT_HARNESS
    step = max(1, len(seeds) // 20)

    def progress(n):
        if n % step == 0:
            print(f"[{prop} {args.tier}] {n}/{len(seeds)} runs, {REAL_PERF() - t0:.0f}s", file=sys.stderr, flush=True)

    results = batch.run_seeds(cfg["engine"], seeds, args.tier, args.jobs, tc["opts"], wall_budget=args.budget, progress=progress if args.tier == "thorough" else None)
    stage_results = []
    for si, st in enumerate(cfg.get("extra_stages", [])):
        n = st["runs"][args.tier] if not args.runs else max(1, args.runs // 4)
        sseeds = [int(args.seed) * SEED_STRIDE + 500_000 + i for i in range(n)]
        rs = batch.run_seeds(st["engine"], sseeds, args.tier, args.jobs, st["opts"], wall_budget=args.budget)
        for r in rs:
            r["_stage"] = si
        stage_results.append((st, rs))
    wall = REAL_PERF() - t0
    main_results = results
    results = list(results)
    for st, rs in stage_results:
        results += rs
    herr = [r for r in results if r.get("harness_error")]
    if herr:
        for r in herr[:3]:
            out(f"HARNESS-ERROR seed={r['seed']}: {r['harness_error']}")
        return batch.EXIT_HARNESS

    known = batch.load_known(prop)
    known_seen = {}
    groups = {}
    for r in results:
        for v in r["violations"]:
            f = batch.match_known(known, v)
            if f is not None:
                known_seen.setdefault(f["id"], [f, 0])[1] += 1
                continue
            groups.setdefault((v["cls"], v.get("key"), r.get("_stage")), []).append((r, v))
    exit_code = batch.EXIT_OK
    for f, n in known_seen.values():
        out(f"KNOWN-FINDING: property={prop} {f['what']} (seen {n}x)")
    nviol = 0
    replays = []
    MAX_GROUPS, MAX_SHRUNK = 10, 10
    unstable = []
    ordered = sorted(groups.items(), key=lambda kv: str(kv[0]))
    if getattr(args, "only_key", None):
        ordered = [kv for kv in ordered if args.only_key in str(kv[0])]
    for gi, ((cls, key, stage_i), items) in enumerate(ordered):
        r, v = items[0]
        eng = cfg["engine"] if stage_i is None else cfg["extra_stages"][stage_i]["engine"]
        mod_g = batch.engine_module(eng)
        nviol += len(items)
        if gi >= MAX_GROUPS:
            continue
        case = r["case"]
        if hasattr(mod_g, "focus"):
            case = mod_g.focus(case, v)
        res1 = batch.run_case(eng, case)
        batch.put_first(res1, cls)
        if res1.get("harness_error"):
            out(f"HARNESS-ERROR re-running seed {r['seed']} ({cls} [{key}]): {res1['harness_error']}")
            return batch.EXIT_HARNESS
        if not batch.has_class(res1, cls):
            # seen in a batch worker, gone when the case runs alone in a fresh child
            unstable.append((cls, key, f"seed {r['seed']}", f"hermetic re-run gave {res1['violations'][:1]}"))
            continue
        small, rs = case, res1
        if gi < MAX_SHRUNK:
            cand = batch.shrink_case(eng, case, res1, budget_s=60)
            rc = batch.run_case(eng, cand)
            if batch.has_class(rc, cls) and not rc.get("harness_error"):
                small, rs = cand, batch.put_first(rc, cls)
        path = batch.write_replay(prop, eng, small, rs)
        if gi < MAX_SHRUNK:
            ok, log = batch.replay_fresh(path)
            if not ok:
                # not replayable in a fresh process: either the simulator is not
                # deterministic (my bug) or state leaked between runs of one worker
                # process (module-level state in the code under test).  Never reported
                # as a VIOLATION; if nothing replayable is found the run is a harness error.
                unstable.append((cls, key, path, log[-600:]))
                os.unlink(path)
                continue
        out(f"  {cls} [{key}] x{len(items)}: {rs['violations'][0]['msg'][:400]}")
        out(f"VIOLATION property={prop} replay={path}")
        replays.append(path)
        exit_code = batch.EXIT_VIOLATION
    # regression: the replay files of repaired findings must stay quiet
    regress = 0
    kf = os.path.join(env.VERIF, "known_findings.json")
    if os.path.exists(kf):
        for f in json.load(open(kf)).get("findings", []):
            if f.get("property") != prop or f.get("status") != "fixed":
                continue
            for rp in f.get("replays", []):
                full = os.path.join(env.VERIF, rp)
                body = json.load(open(full))
                rr = batch.run_case(body["engine"], body["case"])
                regress += 1
                if rr.get("harness_error"):
                    out(f"HARNESS-ERROR regression replay {rp}: {rr['harness_error']}")
                    return batch.EXIT_HARNESS
                if rr["violations"]:
                    e2 = dict(os.environ, PYTHONHASHSEED="0", EKOSIM_NO_REEXEC="1")
                    pr = subprocess.run([sys.executable, os.path.join(env.VERIF, "check.py"), "--replay", full, "--quiet"], env=e2, capture_output=True, text=True, timeout=900)
                    if pr.returncode != batch.EXIT_VIOLATION:
                        unstable.append(("regression:" + f["id"], None, full, pr.stdout[-400:]))
                        continue
                    nviol += 1
                    out(f"  repaired finding {f['id']} is back: {rr['violations'][0]['msg'][:300]}")
                    out(f"VIOLATION property={prop} replay={full}")
                    replays.append(full)
                    exit_code = batch.EXIT_VIOLATION
    for cls, key, path, log in unstable:
        out(f"  UNSTABLE {cls} [{key}]: seen in the batch but not reproduced by its replay file in a fresh interpreter (state leaking between runs, or a nondeterministic simulator)")
    if unstable and exit_code != batch.EXIT_VIOLATION:
        out("HARNESS-ERROR violations were observed that do not replay in a fresh interpreter: " + unstable[0][3])
        return batch.EXIT_HARNESS
    if len(ordered) > MAX_GROUPS:
        out(f"  ... and {len(ordered) - MAX_GROUPS} more distinct violation groups (not replayed individually)")

    if not args.no_evidence:
        cov = mod.summarize(main_results, args.tier)
        for st, rs in stage_results:
            sm_ = batch.engine_module(st["engine"]).summarize(rs, args.tier)
            cov.setdefault("stages", {})[st["name"]] = sm_
            cov["evaluations"] += sm_.get("evaluations", 0)
            cov["distinct_nontrivial"] += sm_.get("distinct_nontrivial", 0)
            for k, n in (sm_.get("faults_fired") or {}).items():
                cov.setdefault("faults_fired", {})
                cov["faults_fired"][k] = cov["faults_fired"].get(k, 0) + n
        if stage_results:
            cov["rule"] += "  (+ extra stages, each with its own rule under 'stages'; evaluations and distinct_nontrivial are sums over the stages)"
        cov["runs"] = len(results)
        cov["seeds"] = dict(first=seeds[0], last=seeds[len(main_results) - 1] if main_results else seeds[0], verif_seed=int(args.seed))
        cov["runs_per_hour"] = int(len(results) / wall * 3600) if wall > 0 else 0
        cov["jobs"] = args.jobs
        if det is not None:
            cov["determinism"] = {k: det[k] for k in ("seeds", "comparisons", "mismatches")}
        cov["known_findings_seen"] = {fid: n for fid, (f, n) in known_seen.items()}
        cov["replays"] = replays
        cov["regression_replays_of_fixed_findings"] = regress
        batch.write_evidence(prop, args.tier, args.seed, cfg["level"], cov, wall, nviol, getattr(mod, "ASSUMPTIONS", []))
    out(f"{prop} {args.tier}: {len(results)} runs, {nviol} violation(s), {len(known_seen)} known finding(s), {wall:.1f}s")
    return exit_code
