"""SimPool — multiprocessing.Pool under a seeded cooperative scheduler.

Workers are in-process tasks.  Each task chunk is shipped as a pickle of
(func, items) and un-pickled by the worker that takes it (fresh copy of the
bound `Operator`, its `Couplings` including the memo cache, the interpolator
...), results travel back as pickles.  Real pool workers share nothing with
each other or the parent except the task and result queues, hence any real
execution is equivalent to some serialisation at item granularity: the
scheduler interleaves at item granularity and loses nothing.

At each step the Decider picks one enabled event:
  take(w)     an idle worker takes the next chunk of the task queue
  step(w)     a busy worker executes its next item
  deliver(c)  the result of a finished chunk reaches the parent
"""

import math
import pickle
from collections import deque


class RemoteError(Exception):
    pass


class _Worker:
    __slots__ = ("wid", "chunk", "func", "items", "pos", "out", "failed")

    def __init__(self, wid):
        self.wid = wid
        self.chunk = None


class SimPool:
    #: installed by the engine before eko creates the pool
    decider = None
    log = None
    fault = None  # dict(item=k, exc=...) -> the k-th executed item raises
    instances = 0

    def __init__(self, processes=None, initializer=None, initargs=(), maxtasksperchild=None, context=None):
        import os

        if processes is None:
            processes = os.cpu_count() or 1
        if processes < 1:
            raise ValueError("Number of processes must be at least 1")
        self.n = int(processes)
        self.closed = False
        self.d = type(self).decider
        self.sched = []  # the schedule actually taken (for signatures / replay files)
        self.executed = 0
        type(self).instances += 1
        if initializer is not None:
            initializer(*initargs)

    # ------------------------------------------------------------ scheduler
    def _run(self, func, chunks, ordered=True):
        """Run all chunks; yields (chunk index, results list) in delivery order."""
        if self.closed:
            raise ValueError("Pool not running")
        d = self.d
        cls = type(self)
        payloads = [pickle.dumps((func, tuple(chunk))) for chunk in chunks]
        queue = deque(range(len(chunks)))
        workers = [_Worker(i) for i in range(self.n)]
        finished = {}  # chunk -> pickled (ok, value)
        delivered = []
        sig_assign = []
        while len(delivered) < len(chunks):
            enabled = []
            for w in workers:
                if w.chunk is None:
                    if queue:
                        enabled.append(("take", w.wid))
                else:
                    enabled.append(("step", w.wid))
            for c in sorted(finished):
                enabled.append(("deliver", c))
            if not enabled:
                raise RuntimeError("SimPool deadlock (harness bug)")
            kind, arg = enabled[d.below("pool:event", len(enabled))] if d is not None else enabled[0]
            self.sched.append((kind, arg))
            if kind == "take":
                w = workers[arg]
                c = queue.popleft()
                w.chunk = c
                w.func, w.items = pickle.loads(payloads[c])
                w.pos = 0
                w.out = []
                w.failed = None
                sig_assign.append((c, arg))
            elif kind == "step":
                w = workers[arg]
                try:
                    f = cls.fault
                    if f is not None and self.executed == f.get("item"):
                        from .stubphys import make_exc

                        self.executed += 1
                        raise make_exc(f.get("exc", "FloatingPointError"), "ekosim injected fault inside a pool worker")
                    self.executed += 1
                    w.out.append(w.func(w.items[w.pos]))
                except Exception as e:  # stdlib: the worker wraps the exception
                    w.failed = e
                w.pos += 1
                if w.failed is not None or w.pos >= len(w.items):
                    if w.failed is not None:
                        try:
                            blob = pickle.dumps((False, w.failed))
                        except Exception as pe:
                            blob = pickle.dumps((False, RemoteError(repr(w.failed) + f" (unpicklable: {pe!r})")))
                    else:
                        blob = pickle.dumps((True, w.out))
                    finished[w.chunk] = blob
                    w.chunk = None
                    w.func = w.items = w.out = None
            else:
                blob = finished.pop(arg)
                ok, value = pickle.loads(blob)
                delivered.append(arg)
                if not ok:
                    self._signature(sig_assign, delivered)
                    raise value
                yield arg, value
        self._signature(sig_assign, delivered)

    def _signature(self, assign, delivered):
        if type(self).log is not None:
            type(self).log.append(dict(width=self.n, assign=tuple(assign), delivered=tuple(delivered), steps=len(self.sched)))

    @staticmethod
    def _chunks(items, chunksize):
        return [items[i : i + chunksize] for i in range(0, len(items), chunksize)]

    def _default_chunksize(self, n_items):
        if n_items == 0:
            return 1
        chunksize, extra = divmod(n_items, self.n * 4)
        if extra:
            chunksize += 1
        return chunksize

    # ------------------------------------------------------------------ API
    def map(self, func, iterable, chunksize=None):
        items = list(iterable)
        if chunksize is None:
            chunksize = self._default_chunksize(len(items))
        chunks = self._chunks(items, chunksize)
        res = {}
        for c, vals in self._run(func, chunks):
            res[c] = vals
        out = []
        for c in range(len(chunks)):
            out.extend(res[c])
        return out

    def starmap(self, func, iterable, chunksize=None):
        return self.map(_Star(func), list(iterable), chunksize)

    def imap(self, func, iterable, chunksize=1):
        items = list(iterable)
        chunks = self._chunks(items, max(1, chunksize))
        res = {}
        for c, vals in self._run(func, chunks):
            res[c] = vals
        for c in range(len(chunks)):
            yield from res[c]

    def imap_unordered(self, func, iterable, chunksize=1):
        items = list(iterable)
        chunks = self._chunks(items, max(1, chunksize))
        for _, vals in list(self._run(func, chunks)):
            yield from vals

    def apply(self, func, args=(), kwds=None):
        return self.map(_Apply(func, kwds or {}), [tuple(args)], 1)[0]

    def apply_async(self, func, args=(), kwds=None, callback=None, error_callback=None):
        return _AsyncResult(lambda: self.apply(func, args, kwds), callback, error_callback)

    def map_async(self, func, iterable, chunksize=None, callback=None, error_callback=None):
        items = list(iterable)
        return _AsyncResult(lambda: self.map(func, items, chunksize), callback, error_callback)

    def starmap_async(self, func, iterable, chunksize=None, callback=None, error_callback=None):
        items = list(iterable)
        return _AsyncResult(lambda: self.starmap(func, items, chunksize), callback, error_callback)

    def close(self):
        self.closed = True

    def terminate(self):
        self.closed = True

    def join(self):
        pass

    def __enter__(self):
        return self

    def __exit__(self, *a):
        self.terminate()
        return False


class _Star:
    def __init__(self, f):
        self.f = f

    def __call__(self, args):
        return self.f(*args)


class _Apply:
    def __init__(self, f, kw):
        self.f = f
        self.kw = kw

    def __call__(self, args):
        return self.f(*args, **self.kw)


class _AsyncResult:
    def __init__(self, thunk, callback, error_callback):
        self._thunk = thunk
        self._cb = callback
        self._ecb = error_callback
        self._done = False
        self._ok = None
        self._val = None

    def _force(self):
        if not self._done:
            try:
                self._val = self._thunk()
                self._ok = True
                if self._cb:
                    self._cb(self._val)
            except Exception as e:
                self._val = e
                self._ok = False
                if self._ecb:
                    self._ecb(e)
            self._done = True

    def get(self, timeout=None):
        self._force()
        if self._ok:
            return self._val
        raise self._val

    def wait(self, timeout=None):
        self._force()

    def ready(self):
        self._force()
        return True

    def successful(self):
        self._force()
        return self._ok


class PoolPatch:
    """Install SimPool as `eko.evolution_operator.Pool` with a given Decider."""

    def __init__(self, decider, log=None, fault=None):
        self.decider = decider
        self.log = log if log is not None else []
        self.fault = fault

    def __enter__(self):
        import eko.evolution_operator as evop

        self.evop = evop
        self.saved = evop.Pool
        SimPool.decider = self.decider
        SimPool.log = self.log
        SimPool.fault = self.fault
        SimPool.instances = 0
        evop.Pool = SimPool
        return self

    def __exit__(self, *a):
        self.evop.Pool = self.saved
        SimPool.decider = None
        SimPool.log = None
        SimPool.fault = None
        return False
