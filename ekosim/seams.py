"""Seams: file system, temp names, clock, cpu count, asynchronous interrupt.

Everything is installed from the outside by patching names that eko (or the
stdlib on its behalf) resolves at call time.  Only paths under the run's
private scratch root are traced / permuted / faulted; everything else passes
straight through.
"""

import builtins
import errno as _errno
import hashlib
import io
import os
import sys
import tarfile
import tempfile
import time

# ---------------------------------------------------------------------------
# originals, captured once at import (before anything is patched)
_OS_NAMES = [
    "mkdir",
    "makedirs",
    "unlink",
    "remove",
    "rmdir",
    "rename",
    "replace",
    "listdir",
    "scandir",
    "stat",
    "lstat",
    "open",
    "close",
    "utime",
    "chmod",
    "chown",
    "lchown",
    "truncate",
    "link",
    "symlink",
    "readlink",
    "access",
    "cpu_count",
    "getcwd",
    "sendfile",
    "fstat",
]
ORIG = {n: getattr(os, n) for n in _OS_NAMES if hasattr(os, n)}
ORIG_IO_OPEN = io.open
ORIG_BUILTIN_OPEN = builtins.open
ORIG_TAR_OPEN = tarfile.bltn_open
ORIG_TIME = {n: getattr(time, n) for n in ("time", "perf_counter", "monotonic", "time_ns")}
ORIG_TEMPDIR = tempfile.tempdir
ORIG_NAMESEQ = tempfile._name_sequence

REAL_PERF = time.perf_counter

FAULT_ERRNOS = [
    _errno.ENOSPC,
    _errno.EIO,
    _errno.EACCES,
    _errno.EMFILE,
    _errno.EROFS,
    _errno.EDQUOT,
]


class ProcessKilled(BaseException):
    """The simulated process was hard-killed: no handler gets to touch the disk again."""


def injected_oserror(code, rel):
    e = OSError(code, os.strerror(code) + " [ekosim injected]", rel)
    e.ekosim_injected = True
    return e


class Trace:
    """Event log of one run: the run's logical time."""

    def __init__(self, keep=True):
        self.events = []
        self.keep = keep
        self.n = 0
        self.op = 0
        self.local = 0
        self.h = hashlib.sha256()
        self.kinds = {}
        self.fired = []

    def begin_op(self, i):
        self.op = i
        self.local = 0

    def add(self, kind, rel, detail=""):
        ev = (self.n, self.op, self.local, kind, rel, detail)
        self.n += 1
        self.local += 1
        self.kinds[kind] = self.kinds.get(kind, 0) + 1
        self.h.update(repr(ev[1:]).encode())
        if self.keep:
            self.events.append(ev)
        return ev

    def note(self, text):
        """Non-seam observation that is part of the digest (oracle reads etc.)."""
        self.h.update(b"#" + text.encode())

    def digest(self):
        return self.h.hexdigest()


class FaultPlan:
    """List of faults, each addressed by script-op + local event index (or global n).

    fault = {"op": i, "local": j, "kind": "oserror"|"short-write"|"close-error",
             "errno": int (optional), "frac": float (short-write prefix fraction)}
    or       {"n": k, ...}
    """

    def __init__(self, faults=None):
        self.faults = [dict(f) for f in (faults or [])]
        self.by_site = {}
        self.by_n = {}
        for f in self.faults:
            if "n" in f:
                self.by_n[f["n"]] = f
            elif "op" in f:
                self.by_site[(f["op"], f["local"])] = f

    def match(self, ev):
        n, op, local = ev[0], ev[1], ev[2]
        f = self.by_n.get(n)
        if f is None:
            f = self.by_site.get((op, local))
        return f


class _ScandirProxy:
    def __init__(self, entries):
        self._entries = entries
        self._i = 0

    def __iter__(self):
        return self

    def __next__(self):
        if self._i >= len(self._entries):
            raise StopIteration
        e = self._entries[self._i]
        self._i += 1
        return e

    def close(self):
        self._i = len(self._entries)

    def __enter__(self):
        return self

    def __exit__(self, *a):
        self.close()
        return False


class FileProxy:
    """Wraps a real file object opened under the scratch root."""

    def __init__(self, seam, f, rel, writing):
        object.__setattr__(self, "_seam", seam)
        object.__setattr__(self, "_f", f)
        object.__setattr__(self, "_rel", rel)
        object.__setattr__(self, "_writing", writing)
        object.__setattr__(self, "_closed_seen", False)
        seam.open_proxies.append(self)

    # --- faultable operations
    def write(self, data):
        seam = self._seam
        if not seam.active:
            return self._f.write(data)
        fault = seam.event("write", self._rel, len(data))
        if fault is not None:
            kind = fault.get("kind", "oserror")
            if kind == "short-write" and len(data) > 0:
                k = int(fault.get("frac", 0.5) * len(data))
                k = max(0, min(len(data) - 1, k))
                self._f.write(data[:k])
                try:
                    self._f.flush()
                except Exception:
                    pass
                seam.fired(fault, "write", self._rel)
                raise injected_oserror(_errno.ENOSPC, self._rel)
            seam.fired(fault, "write", self._rel)
            raise injected_oserror(fault.get("errno", _errno.ENOSPC), self._rel)
        return self._f.write(data)

    def writelines(self, lines):
        for line in lines:
            self.write(line)

    def read(self, *a):
        seam = self._seam
        if seam.active and seam.trace_reads:
            fault = seam.event("read", self._rel, a[0] if a else -1)
            if fault is not None:
                seam.fired(fault, "read", self._rel)
                raise injected_oserror(fault.get("errno", _errno.EIO), self._rel)
        return self._f.read(*a)

    def close(self):
        seam = self._seam
        if self._writing and not self._closed_seen and seam.active:
            object.__setattr__(self, "_closed_seen", True)
            fault = seam.event("close_w", self._rel)
            if fault is not None:
                # data is flushed and the descriptor released, then the error
                try:
                    self._f.close()
                except Exception:
                    pass
                seam.fired(fault, "close_w", self._rel)
                raise injected_oserror(fault.get("errno", _errno.EIO), self._rel)
        try:
            seam.fdpaths.pop(self._f.fileno(), None)
        except Exception:
            pass
        try:
            seam.open_proxies.remove(self)
        except ValueError:
            pass
        return self._f.close()

    def __enter__(self):
        self._f.__enter__()
        return self

    def __exit__(self, *a):
        self.close()
        return False

    def __iter__(self):
        return iter(self._f)

    def __next__(self):
        return next(self._f)

    def __getattr__(self, name):
        return getattr(self._f, name)

    def __setattr__(self, name, value):
        setattr(self._f, name, value)


class Seams:
    """All seams of one run."""

    def __init__(
        self,
        root,
        decider,
        trace=None,
        plan=None,
        permute_listings=True,
        trace_reads=False,
        trace_stats=True,
        clock=True,
        cpu_count=None,
        exdev_between=None,
    ):
        # exdev_between = (prefix_a, prefix_b): renames between these two scratch
        # sub-trees fail with EXDEV ("the temp area is on another file system")
        self.exdev_between = exdev_between
        self.exdev_hits = 0
        self.root = os.path.realpath(root)
        self.rootsep = self.root + os.sep
        self.d = decider
        self.trace = trace if trace is not None else Trace()
        self.plan = plan if plan is not None else FaultPlan()
        self.permute = permute_listings
        self.trace_reads = trace_reads
        self.trace_stats = trace_stats
        self.use_clock = clock
        self.cpu = cpu_count
        self.active = False
        self.installed = False
        self.fdpaths = {}
        self.faults_fired = []
        self.fs_faults_enabled = True
        self.dead = False
        self.open_proxies = []
        # virtual clock state
        self._epoch = 1.0e9 + self.d.uniform("clock:epoch", 0, 1.0e9)
        self._mono = self.d.uniform("clock:mono0", 0, 1.0e6)
        self._now = self._epoch

    # ------------------------------------------------------------------ paths
    def rel(self, path, dir_fd=None):
        if isinstance(path, int):
            return self.fdpaths.get(path)
        try:
            p = os.fspath(path)
        except TypeError:
            return None
        if isinstance(p, bytes):
            try:
                p = p.decode()
            except UnicodeDecodeError:
                return None
        if not p.startswith("/"):
            if dir_fd is not None:
                base = self.fdpaths.get(dir_fd)
                if base is None:
                    return None
                base = os.path.join(self.root, base) if base != "." else self.root
            else:
                base = ORIG["getcwd"]()
            p = os.path.join(base, p)
        p = os.path.normpath(p)
        if p == self.root:
            return "."
        if p.startswith(self.rootsep):
            return p[len(self.rootsep) :]
        return None

    # ----------------------------------------------------------------- events
    def event(self, kind, rel, detail=""):
        """Record an event; return the planned fault for this site (or None)."""
        if self.dead:
            # after a hard kill nothing of the session reaches the disk any more
            # (exception handlers and finalizers included)
            raise ProcessKilled(f"ekosim: process is dead ({kind} {rel})")
        ev = self.trace.add(kind, rel, detail)
        if not self.fs_faults_enabled:
            return None
        f = self.plan.match(ev)
        if f is not None and f.get("kind") == "kill":
            self.fired(f, kind, rel)
            self.dead = True
            self.sever_open_files()
            raise ProcessKilled(f"ekosim: process killed at {kind} {rel}")
        return f

    def sever_open_files(self):
        """A killed process takes its user-space buffers with it.  In this simulation
        the file objects of the dead session live on until they are garbage collected
        and would then flush into files a later session may have re-created: point
        their descriptors at /dev/null instead."""
        try:
            null = ORIG["open"](os.devnull, os.O_WRONLY)
        except OSError:
            return
        try:
            for p in list(self.open_proxies):
                try:
                    os.dup2(null, p._f.fileno())
                except Exception:
                    pass
            self.open_proxies.clear()
        finally:
            ORIG["close"](null)

    def fired(self, fault, kind, rel):
        rec = dict(fault)
        rec["at_kind"] = kind
        rec["at_path"] = rel
        rec["at_n"] = self.trace.n - 1
        self.faults_fired.append(rec)

    def _gate(self, kind, rel, detail=""):
        """Event + plain error fault (raised before the effect)."""
        fault = self.event(kind, rel, detail)
        if fault is not None:
            self.fired(fault, kind, rel)
            code = fault.get("errno", _errno.EIO)
            if fault.get("kind") == "exdev":
                code = _errno.EXDEV
            raise injected_oserror(code, rel)

    # --------------------------------------------------------------- wrappers
    def _mk1(self, name, kind):
        orig = ORIG[name]
        seam = self

        def wrapper(path, *a, **kw):
            if not seam.active:
                return orig(path, *a, **kw)
            rel = seam.rel(path, kw.get("dir_fd"))
            if rel is None:
                return orig(path, *a, **kw)
            seam._gate(kind, rel)
            return orig(path, *a, **kw)

        wrapper.__name__ = name
        return wrapper

    def _mk_stat(self, name):
        orig = ORIG[name]
        seam = self

        def wrapper(path, *a, **kw):
            if not seam.active or not seam.trace_stats:
                return orig(path, *a, **kw)
            rel = seam.rel(path, kw.get("dir_fd"))
            if rel is None:
                return orig(path, *a, **kw)
            seam._gate("stat", rel)
            return orig(path, *a, **kw)

        wrapper.__name__ = name
        return wrapper

    def _mk2(self, name, kind):
        orig = ORIG[name]
        seam = self

        def wrapper(src, dst, *a, **kw):
            if not seam.active:
                return orig(src, dst, *a, **kw)
            r1 = seam.rel(src, kw.get("src_dir_fd"))
            r2 = seam.rel(dst, kw.get("dst_dir_fd"))
            if r1 is None and r2 is None:
                return orig(src, dst, *a, **kw)
            seam._gate(kind, f"{r1} -> {r2}")
            xb = seam.exdev_between
            if xb is not None and kind == "rename" and r1 is not None and r2 is not None:
                a1, b1 = str(r1).startswith(xb[0]), str(r1).startswith(xb[1])
                a2, b2 = str(r2).startswith(xb[0]), str(r2).startswith(xb[1])
                if (a1 and b2) or (b1 and a2):
                    seam.exdev_hits += 1
                    raise OSError(_errno.EXDEV, "Invalid cross-device link [ekosim environment]", str(r1))
            return orig(src, dst, *a, **kw)

        wrapper.__name__ = name
        return wrapper

    def _listdir(self, path="."):
        orig = ORIG["listdir"]
        if not self.active:
            return orig(path)
        rel = self.rel(path)
        if rel is None:
            return orig(path)
        self._gate("listdir", rel)
        names = sorted(orig(path))
        if self.permute:
            names = self.d.shuffle("ls:" + rel, names)
        return names

    def _scandir(self, path="."):
        orig = ORIG["scandir"]
        if not self.active:
            return orig(path)
        rel = self.rel(path)
        if rel is None:
            return orig(path)
        self._gate("scandir", rel)
        with orig(path) as it:
            entries = sorted(it, key=lambda e: e.name)
        if self.permute:
            entries = self.d.shuffle("ls:" + rel, entries)
        return _ScandirProxy(entries)

    def _os_open(self, path, flags, mode=0o777, *, dir_fd=None):
        orig = ORIG["open"]
        if not self.active:
            return orig(path, flags, mode, dir_fd=dir_fd)
        rel = self.rel(path, dir_fd)
        if rel is None:
            return orig(path, flags, mode, dir_fd=dir_fd)
        self._gate("os_open", rel, flags & (os.O_WRONLY | os.O_RDWR | os.O_CREAT))
        fd = orig(path, flags, mode, dir_fd=dir_fd)
        self.fdpaths[fd] = rel
        return fd

    def _os_close(self, fd):
        self.fdpaths.pop(fd, None)
        return ORIG["close"](fd)

    def _open(self, orig):
        seam = self

        def wrapper(file, mode="r", *a, **kw):
            if not seam.active:
                return orig(file, mode, *a, **kw)
            rel = seam.rel(file)
            if rel is None:
                return orig(file, mode, *a, **kw)
            writing = any(c in mode for c in "wax+")
            seam._gate("open_w" if writing else "open_r", rel, mode)
            f = orig(file, mode, *a, **kw)
            try:
                seam.fdpaths[f.fileno()] = rel
            except Exception:
                pass
            return FileProxy(seam, f, rel, writing)

        return wrapper

    def _sendfile(self, out_fd, in_fd, *a, **kw):
        if self.active:
            r = self.fdpaths.get(out_fd)
            if r is not None:
                self._gate("sendfile", r)
        return ORIG["sendfile"](out_fd, in_fd, *a, **kw)

    # ------------------------------------------------------------------ clock
    def _tick(self):
        if self.d.chance("clock:jump", 0.02):
            step = self.d.uniform("clock:jumpsize", -3600.0, 86400.0)
        else:
            step = self.d.uniform("clock:step", 0.0, 0.25)
        self._now += step
        self._mono += abs(step)

    def _time(self):
        self._tick()
        return self._now

    def _time_ns(self):
        self._tick()
        return int(self._now * 1e9)

    def _perf(self):
        self._tick()
        return self._mono

    # --------------------------------------------------------------- install
    def install(self):
        assert not self.installed
        for name, kind in [
            ("mkdir", "mkdir"),
            ("unlink", "unlink"),
            ("remove", "unlink"),
            ("rmdir", "rmdir"),
            ("utime", "utime"),
            ("chmod", "chmod"),
            ("chown", "chown"),
            ("lchown", "chown"),
            ("truncate", "truncate"),
            ("readlink", "readlink"),
            ("access", "stat"),
        ]:
            if name in ORIG:
                setattr(os, name, self._mk1(name, kind))
        for name in ("stat", "lstat"):
            setattr(os, name, self._mk_stat(name))
        for name, kind in [
            ("rename", "rename"),
            ("replace", "rename"),
            ("link", "link"),
            ("symlink", "symlink"),
        ]:
            setattr(os, name, self._mk2(name, kind))
        os.listdir = self._listdir
        os.scandir = self._scandir
        os.open = self._os_open
        os.close = self._os_close
        if "sendfile" in ORIG:
            os.sendfile = self._sendfile
        io.open = self._open(ORIG_IO_OPEN)
        builtins.open = self._open(ORIG_BUILTIN_OPEN)
        tarfile.bltn_open = self._open(ORIG_TAR_OPEN)
        if self.cpu is not None:
            cpu = self.cpu
            os.cpu_count = lambda: cpu
        if self.use_clock:
            time.time = self._time
            time.time_ns = self._time_ns
            time.perf_counter = self._perf
            time.monotonic = self._perf
        # temp names and temp root
        tmp = os.path.join(self.root, "tmp")
        ORIG["makedirs"](tmp, exist_ok=True)
        tempfile.tempdir = tmp
        tempfile._name_sequence = _NameSeq(self.d)
        self.installed = True
        self.active = True

    def uninstall(self):
        self.active = False
        if not self.installed:
            return
        for n, f in ORIG.items():
            if n in ("getcwd", "fstat", "makedirs"):
                continue
            setattr(os, n, f)
        io.open = ORIG_IO_OPEN
        builtins.open = ORIG_BUILTIN_OPEN
        tarfile.bltn_open = ORIG_TAR_OPEN
        for n, f in ORIG_TIME.items():
            setattr(time, n, f)
        tempfile.tempdir = ORIG_TEMPDIR
        tempfile._name_sequence = ORIG_NAMESEQ
        self.installed = False

    class _Paused:
        def __init__(self, seam):
            self.seam = seam

        def __enter__(self):
            self.prev = self.seam.active
            self.seam.active = False

        def __exit__(self, *a):
            self.seam.active = self.prev
            return False

    def paused(self):
        """Harness-side file access (oracles) that must not be traced."""
        return Seams._Paused(self)

    def __enter__(self):
        self.install()
        return self

    def __exit__(self, *a):
        self.uninstall()
        return False


class _NameSeq:
    """Seed-derived temp names (replaces tempfile._RandomNameSequence)."""

    def __init__(self, decider):
        self.d = decider

    def __iter__(self):
        return self

    def __next__(self):
        return self.d.bytes("tmpname", 5).hex()


# ---------------------------------------------------------------------------
class LineInterrupter:
    """Raise KeyboardInterrupt at the k-th traced line event.

    Only frames whose code lives in one of `prefixes` are traced; k=None just
    counts.
    """

    def __init__(self, prefixes, k=None):
        self.prefixes = tuple(prefixes)
        self.k = k
        self.count = 0
        self.where = None
        self.fired = False

    def _global(self, frame, event, arg):
        if frame.f_code.co_filename.startswith(self.prefixes):
            return self._local
        return None

    def _local(self, frame, event, arg):
        if event == "line":
            self.count += 1
            if self.k is not None and self.count == self.k and not self.fired:
                self.fired = True
                self.where = (
                    os.path.basename(frame.f_code.co_filename),
                    frame.f_code.co_name,
                    frame.f_lineno,
                )
                sys.settrace(None)
                raise KeyboardInterrupt("ekosim injected interrupt")
        return self._local

    def __enter__(self):
        sys.settrace(self._global)
        return self

    def __exit__(self, *a):
        sys.settrace(None)
        return False
