"""Independent reader of an EKO archive (.tar) — the oracle's view of the disk.

It does not use any eko code: tarfile + yaml.safe_load + lz4 + numpy only.
"""

import hashlib
import io
import math
import tarfile

import lz4.frame
import numpy as np
import yaml


class CorruptArchive(Exception):
    pass


def canon(obj):
    """Canonical, hashable, NaN-aware form of a YAML-ish object."""
    if isinstance(obj, dict):
        return ("d",) + tuple(sorted((str(k), canon(v)) for k, v in obj.items()))
    if isinstance(obj, (list, tuple)):
        return ("l",) + tuple(canon(v) for v in obj)
    if isinstance(obj, bool) or obj is None or isinstance(obj, str):
        return obj
    if isinstance(obj, (int, np.integer)):
        return ("n", float(obj).hex() if abs(int(obj)) < 2**53 else str(int(obj)))
    if isinstance(obj, (float, np.floating)):
        f = float(obj)
        if math.isnan(f):
            return ("n", "nan")
        return ("n", f.hex())
    if isinstance(obj, np.ndarray):
        return ("a", str(obj.dtype), obj.shape, hashlib.sha256(obj.tobytes()).hexdigest())
    return ("r", repr(obj))


def array_sig(a):
    if a is None:
        return None
    a = np.ascontiguousarray(a)
    return (str(a.dtype), tuple(a.shape), hashlib.sha256(a.tobytes()).hexdigest())


def decode_operator(blob):
    """bytes of an .npy.lz4 / .npz.lz4 member -> (operator, error|None)."""
    raw = lz4.frame.decompress(blob)
    content = np.load(io.BytesIO(raw), allow_pickle=False)
    if isinstance(content, np.ndarray):
        return content, None
    op = content["operator"]
    err = content["error"]
    return op, err


def read_members(path):
    """name -> bytes for regular files, plus the set of directories.

    Raises CorruptArchive if the tar is unreadable, truncated or inconsistent.
    """
    files, dirs = {}, set()
    try:
        with tarfile.open(path, "r:") as tar:
            for m in tar.getmembers():
                name = m.name
                while name.startswith("./"):
                    name = name[2:]
                if name in (".", ""):
                    continue
                if m.isdir():
                    dirs.add(name)
                elif m.isreg():
                    f = tar.extractfile(m)
                    data = f.read()
                    if len(data) != m.size:
                        raise CorruptArchive(f"member {name}: short read")
                    if name in files:
                        raise CorruptArchive(f"duplicate member {name}")
                    files[name] = data
                else:
                    raise CorruptArchive(f"member {name}: unexpected type")
    except CorruptArchive:
        raise
    except Exception as e:  # tarfile.ReadError, EOFError, OSError ...
        raise CorruptArchive(f"{type(e).__name__}: {e}") from e
    return files, dirs


REQUIRED = ["metadata.yaml", "theory.yaml", "operator.yaml"]
REQUIRED_DIRS = ["recipes", "recipes/matching", "parts", "parts/matching", "operators"]


def logical(path):
    """Decode the whole archive to a comparable logical content.

    Returns dict(member name -> canonical content).  Raises CorruptArchive when
    anything is missing, truncated or undecodable, or when an operator item has
    no header / a header of a contentful inventory has not exactly one item.
    """
    files, dirs = read_members(path)
    for r in REQUIRED:
        if r not in files:
            raise CorruptArchive(f"missing {r}")
    # (empty inventory directories are part of the content that is compared
    # between archives, but their absence alone is not "corrupt": eko can read
    # such an archive)
    out = {}
    for name, data in files.items():
        try:
            if name.endswith(".yaml"):
                out[name] = ("yaml", canon(yaml.safe_load(data.decode("utf-8"))))
            elif name.endswith(".npy.lz4") or name.endswith(".npz.lz4"):
                op, err = decode_operator(data)
                out[name] = ("op", array_sig(op), array_sig(err))
            else:
                out[name] = ("raw", hashlib.sha256(data).hexdigest())
        except Exception as e:
            raise CorruptArchive(f"member {name} undecodable: {type(e).__name__}: {e}") from e
    # structural consistency of contentful inventories
    for inv in ("operators", "parts", "parts/matching"):
        stems = {}
        for name in files:
            d, _, base = name.rpartition("/")
            if d != inv:
                continue
            for ext in (".yaml", ".npy.lz4", ".npz.lz4"):
                if base.endswith(ext):
                    stems.setdefault(base[: -len(ext)], []).append(ext)
        for stem, exts in stems.items():
            items = [e for e in exts if e != ".yaml"]
            if ".yaml" not in exts:
                raise CorruptArchive(f"{inv}/{stem}: item without header")
            if len(items) != 1:
                raise CorruptArchive(f"{inv}/{stem}: header with {len(items)} items")
    out["__dirs__"] = tuple(sorted(dirs))
    return out


def logical_or_state(path, exists):
    """('absent',) | ('corrupt', why) | ('ok', content)."""
    if not exists(path):
        return ("absent",)
    try:
        return ("ok", logical(path))
    except CorruptArchive as e:
        return ("corrupt", str(e))


def load_inventory(files, inv):
    """Decode one inventory: list of (header dict, operator|None, error|None)."""
    out = []
    stems = {}
    for name, data in files.items():
        d, _, base = name.rpartition("/")
        if d != inv:
            continue
        for ext in (".yaml", ".npy.lz4", ".npz.lz4"):
            if base.endswith(ext):
                stems.setdefault(base[: -len(ext)], {})[ext] = data
    for stem in sorted(stems):
        parts = stems[stem]
        if ".yaml" not in parts:
            raise CorruptArchive(f"{inv}/{stem}: item without header")
        header = yaml.safe_load(parts[".yaml"].decode("utf-8"))
        blobs = [v for k, v in parts.items() if k != ".yaml"]
        if len(blobs) > 1:
            raise CorruptArchive(f"{inv}/{stem}: header with {len(blobs)} items")
        if blobs:
            op, err = decode_operator(blobs[0])
        else:
            op, err = None, None
        out.append((header, op, err, stem))
    return out
