"""Child of the C47 engine: one `solve` in a fresh interpreter under one environment.

stdin: JSON {case, tag}; stdout: one JSON line with the logical content of the
archive as seen by the independent reader.
PYTHONHASHSEED is set by the parent; everything else the simulator owns
(temp names, scratch root, cwd, listing order, clock, cpu count, pool schedule)
is derived from (seed, tag).
"""

import hashlib
import json
import os
import sys

sys.path.insert(0, os.path.dirname(os.path.dirname(os.path.abspath(__file__))))

from ekosim import env  # noqa: E402

env.setup()


def main():
    env.assert_eko_from_repo()
    req = json.load(sys.stdin)
    tag = req["tag"]
    outs = []
    for case in req["cases"]:
        outs.append(one(case, tag))
    sys.stdout.write("RESULT " + json.dumps(outs) + "\n")


def one(case, tag):
    import pathlib
    import shutil
    import tempfile

    from ekosim import archive, cards, seams, simpool
    from ekosim.decider import Decider

    e = case["envs"][tag]
    base = os.environ.get("EKOSIM_TMP") or os.environ.get("TMPDIR") or "/tmp"
    root = tempfile.mkdtemp(prefix=f"ekosim-repro-{tag}-", dir=base)
    try:
        sub = os.path.join(root, e["subdir"])
        os.makedirs(os.path.join(sub, "cwd"))
        os.makedirs(os.path.join(sub, "out"))
        os.chdir(os.path.join(sub, "cwd"))
        from eko.runner.managed import solve

        th, op = cards.build(case["theory"], case["operator"])
        d = Decider(case["seed"], "env:" + tag)
        sm = seams.Seams(sub, d, cpu_count=e["cpu"], trace_stats=False)
        log = []
        target = pathlib.Path(sub) / "out" / e["name"]
        if e.get("relative"):
            target = pathlib.Path("..") / "out" / e["name"]
        with simpool.PoolPatch(Decider(case["seed"], "pool:" + tag), log=log):
            with sm:
                solve(th, op, target)
        os.chdir(root)
        files, dirs = archive.read_members(os.path.join(sub, "out", e["name"]))
        members = {}
        for name, data in files.items():
            if name.endswith(".lz4"):
                opa, err = archive.decode_operator(data)
                members[name] = dict(kind="op", op=archive.array_sig(opa), err=archive.array_sig(err))
            else:
                members[name] = dict(kind="raw", sha=hashlib.sha256(data).hexdigest(), text=data.decode("utf-8", "replace") if len(data) < 600 else None)
        out = dict(ok=True, members=members, dirs=sorted(dirs), pool=[(r["width"], len(r["assign"])) for r in log], hashseed=os.environ.get("PYTHONHASHSEED"), events=sm.trace.n)
    except NotImplementedError as ex:
        out = dict(ok=False, refused=repr(ex))
    finally:
        os.chdir("/")
        shutil.rmtree(root, ignore_errors=True)
    return out


if __name__ == "__main__":
    main()
