"""Stub physics: deterministic, non-commuting pseudo-random parts.

Replaces `eko.runner.parts.evolve/match` (the Mellin integrations) so that a
full `solve` costs tens of milliseconds.  The tensor depends only on the
recipe header, is dense and non-symmetric, so a wrong multiplication order, a
wrong part, or a part computed for the wrong header cannot go unnoticed.
"""

import dataclasses
import hashlib

import numpy as np

NPIDS = 14


def _seed(header):
    d = dataclasses.asdict(header)
    key = type(header).__name__ + "|" + "|".join(
        f"{k}={float(v).hex() if isinstance(v, (int, float)) and not isinstance(v, bool) else v!r}"
        for k, v in sorted(d.items())
    )
    return int.from_bytes(hashlib.blake2b(key.encode(), digest_size=8).digest(), "little")


def tensor(header, nx, with_error=True):
    rng = np.random.Generator(np.random.PCG64(_seed(header)))
    n = NPIDS * nx
    m = rng.uniform(-1.0, 1.0, size=(n, n)) / np.sqrt(n) + 0.5 * np.eye(n)
    op = m.reshape(NPIDS, nx, NPIDS, nx)
    err = None
    if with_error:
        err = rng.uniform(0.0, 1e-3, size=(NPIDS, nx, NPIDS, nx))
    return op, err


class StubPhysics:
    """Patchable replacement of parts.evolve / parts.match with call logging."""

    def __init__(self, fail_at=None, fail_exc="FloatingPointError", with_error=True):
        self.calls = []
        self.fail_at = fail_at
        self.fail_exc = fail_exc
        self.with_error = with_error
        self.fired = False

    def _step(self, kind, eko, recipe):
        from eko.io.items import Operator

        k = len(self.calls)
        self.calls.append((kind, recipe))
        if self.fail_at is not None and k == self.fail_at:
            self.fired = True
            raise make_exc(self.fail_exc, f"ekosim injected compute fault at step {k}")
        nx = len(eko.xgrid)
        op, err = tensor(recipe, nx, self.with_error)
        return Operator(op, err)

    def evolve(self, eko, recipe):
        return self._step("evolve", eko, recipe)

    def match(self, eko, recipe):
        return self._step("match", eko, recipe)


class ComputeFault(Exception):
    pass


def make_exc(name, msg):
    cls = {
        "FloatingPointError": FloatingPointError,
        "MemoryError": MemoryError,
        "ValueError": ValueError,
        "OSError": lambda m: OSError(12, m),
        "ZeroDivisionError": ZeroDivisionError,
        "KeyboardInterrupt": KeyboardInterrupt,
    }.get(name, ComputeFault)
    e = cls(msg)
    try:
        e.ekosim_injected = True
    except Exception:
        pass
    return e


class CountingPhysics:
    """Wrap the REAL parts.evolve / parts.match: call log + optional fault."""

    def __init__(self, real_evolve, real_match, fail_at=None, fail_exc="FloatingPointError"):
        self.real_evolve = real_evolve
        self.real_match = real_match
        self.calls = []
        self.fail_at = fail_at
        self.fail_exc = fail_exc
        self.fired = False

    def _pre(self, kind, recipe):
        k = len(self.calls)
        self.calls.append((kind, recipe))
        if self.fail_at is not None and k == self.fail_at:
            self.fired = True
            raise make_exc(self.fail_exc, f"ekosim injected compute fault at step {k}")

    def evolve(self, eko, recipe):
        self._pre("evolve", recipe)
        return self.real_evolve(eko, recipe)

    def match(self, eko, recipe):
        self._pre("match", recipe)
        return self.real_match(eko, recipe)
