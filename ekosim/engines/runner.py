"""C02 — each final EKO is the ordered product of the parts along its matched path.

A real `solve` runs under the FS seam (permuted listings, seeded temp names);
the oracle works on the recorded history (call log of the computation steps,
seam trace) and on the closed archive read back with the independent reader,
against an independent reference of the flavour-number path.
"""

import hashlib
import os
import pathlib
import re

import numpy as np

from .. import archive, cards, seams, simpool
from ..batch import HarnessError, Scratch
from ..decider import Decider
from ..models import flavour_path as fp
from .crash import PhysicsPatch

NAME = "runner"


def generate(seed, tier, opts):
    d = Decider(seed, "runner")
    real = d.chance("real", float(opts.get("real_frac", 0.03)))
    th, op = cards.gen_cards(d, real=real, max_targets=3 if real else 5, allow_dup=True)
    if real and th["order"][0] > 1:
        op["mugrid"] = op["mugrid"][:2]
    return dict(seed=int(seed), physics="real" if real else "stub", theory=th, operator=op, cores=d.pick("cores", [1, 1, 2, 3]) if real else 1, cpu=d.between("cpu", 2, 8))


def dot4(a, b):
    return np.einsum("aibj,bjck->aick", a, b)


def execute(case):
    from eko.runner.managed import solve

    viol = []
    probes = dict(parts=0, matchings=0, max_path_len=0, downward_targets=0, upward_targets=0, flat_targets=0, shared_parts=0, on_wall_targets=0)
    with Scratch("runner") as root:
        os.makedirs(os.path.join(root, "out"))
        op_raw = dict(case["operator"])
        op_raw["configs"] = dict(op_raw["configs"])
        op_raw["configs"]["n_integration_cores"] = case.get("cores", 1)
        th, op = cards.build(case["theory"], op_raw)
        target = pathlib.Path(root) / "out" / "r.tar"
        d = Decider(case["seed"], "fs")
        tr = seams.Trace()
        sm = seams.Seams(root, d, trace=tr, cpu_count=case.get("cpu", 4), trace_stats=False)
        log = []
        try:
            with PhysicsPatch(case) as phys:
                with simpool.PoolPatch(Decider(case["seed"], "pool"), log=log):
                    with sm:
                        solve(th, op, target)
        except NotImplementedError as e:
            return dict(violations=[], refused=repr(e), digest="refused")
        events = tr.events
        digest = tr.digest()
        # ---------------------------------------------------------------- (1) exactly once
        seen = {}
        for kind, recipe in phys.calls:
            seen[(kind, recipe)] = seen.get((kind, recipe), 0) + 1
        for (kind, recipe), n in seen.items():
            if n != 1:
                viol.append(dict(cls="part-computed-more-than-once", key="part-computed-more-than-once", msg=f"{kind}({recipe}) was computed {n} times"))
        writes = {}
        for ev in events:
            if ev[3] == "open_w" and re.search(r"/parts/(matching/)?[^/]+\.np[yz]\.lz4$", str(ev[4])):
                stem = str(ev[4]).rsplit("/", 1)[1].split(".")[0]
                sub = "parts/matching" if "/parts/matching/" in str(ev[4]) else "parts"
                writes[(sub, stem)] = writes.get((sub, stem), 0) + 1
        for k, n in writes.items():
            if n != 1:
                viol.append(dict(cls="part-stored-more-than-once", key="part-stored-more-than-once", msg=f"{k[0]}/{k[1]} was opened for writing {n} times"))
        # ---------------------------------------------------------------- archive
        with sm.paused():
            st = archive.logical_or_state(str(target), os.path.exists)
            if st[0] != "ok":
                viol.append(dict(cls="archive-corrupt", key="archive-corrupt", msg=f"solve left {st[:2]}"))
                return dict(violations=viol, digest=digest, probes=probes)
            files, _ = archive.read_members(str(target))
        ev_parts = [(h, o, e) for h, o, e, _ in archive.load_inventory(files, "parts")]
        ma_parts = [(h, o, e) for h, o, e, _ in archive.load_inventory(files, "parts/matching")]
        ev_recs = [h for h, _, _, _ in archive.load_inventory(files, "recipes")]
        ma_recs = [h for h, _, _, _ in archive.load_inventory(files, "recipes/matching")]
        ops = {(float(h["scale"]), int(h["nf"])): (o, e) for h, o, e, _ in archive.load_inventory(files, "operators")}
        probes["parts"] = len(ev_parts)
        probes["matchings"] = len(ma_parts)
        if len(phys.calls) != len(ev_parts) + len(ma_parts):
            viol.append(dict(cls="parts-computed-vs-stored", key="parts-computed-vs-stored", msg=f"{len(phys.calls)} computation steps but {len(ev_parts)}+{len(ma_parts)} archived parts"))
        if len(writes) != len(ev_parts) + len(ma_parts):
            viol.append(dict(cls="parts-written-vs-stored", key="parts-written-vs-stored", msg=f"{len(writes)} part files written but {len(ev_parts)}+{len(ma_parts)} archived"))
        # ---------------------------------------------------------------- (2) reference paths
        walls = cards.walls_of(case["theory"])
        mu0, nf0 = case["operator"]["init"]
        origin = (mu0**2, nf0)
        required = []  # distinct reference blocks
        per_target = []
        for mu, nf in case["operator"]["mugrid"]:
            blocks = fp.blocks(walls, origin, (mu**2, nf))
            per_target.append(((mu**2, nf), blocks))
            probes["max_path_len"] = max(probes["max_path_len"], len(blocks))
            key = "downward_targets" if nf < nf0 else ("upward_targets" if nf > nf0 else "flat_targets")
            probes[key] += 1
            if any(fp.feq(mu**2, w) for w in walls):
                probes["on_wall_targets"] += 1
            for b in blocks:
                if b not in required:
                    required.append(b)
        nblocks = sum(len(b) for _, b in per_target)
        probes["shared_parts"] = nblocks - len(required)

        def boundary(kind, h, side):
            """The float an archived header carries on one side of a block."""
            if kind == "M":
                return float(h["scale"])
            return float(h["origin"] if side == "in" else h["target"])

        def resolve(blocks, start, end, where):
            """Archived entries realising a reference path.

            The model's wall arithmetic may differ from eko's in the last bit, and a
            card may hold a target one ulp beside a wall, so single blocks are matched
            with a tolerance - but a *chain* is only accepted if consecutive entries
            join on bitwise-identical scales, it starts exactly at the initial scale
            and ends exactly at the target's scale (those two come from the card by
            the same float operation on both sides)."""
            pools = []
            for b in blocks:
                kind = b[0]
                if where == "parts":
                    pool = ev_parts if kind == "E" else ma_parts
                else:
                    pool = [(h, None, None) for h in (ev_recs if kind == "E" else ma_recs)]
                pools.append([p for p in pool if fp.block_matches_header(b, kind, p[0])])
            chains = []

            def rec(i, acc):
                if i == len(blocks):
                    chains.append(list(acc))
                    return
                for p in pools[i]:
                    kind = blocks[i][0]
                    if i == 0 and boundary(kind, p[0], "in") != start:
                        continue
                    if i > 0 and boundary(kind, p[0], "in") != boundary(blocks[i - 1][0], acc[-1][0], "out"):
                        continue
                    if i == len(blocks) - 1 and boundary(kind, p[0], "out") != end:
                        continue
                    acc.append(p)
                    rec(i + 1, acc)
                    acc.pop()

            rec(0, [])
            return pools, chains

        used = {"parts": [], "recipes": []}
        chains_for = {}
        for where in ("parts", "recipes"):
            for (mu2, nf), blocks in per_target:
                pools, chains = resolve(blocks, origin[0], mu2, where)
                if not chains:
                    miss = next((b for b, pl in zip(blocks, pools) if not pl), None)
                    if miss is not None:
                        viol.append(dict(cls="required-part-missing", key=f"required-part-missing:{where}", msg=f"path block {miss} of target ({mu2}, {nf}) is not among the archived {where}"))
                    else:
                        viol.append(dict(cls="path-does-not-chain", key=f"path-does-not-chain:{where}", msg=f"archived {where} matching the blocks {blocks} of target ({mu2}, {nf}) do not join on identical scales from {origin[0]} to {mu2}: {[[p[0] for p in pl] for pl in pools]}"))
                    continue
                sigs_ = {tuple(id(p[0]) for p in ch) for ch in chains}
                if len(sigs_) > 1:
                    dup = next((pl for pl in pools if len({id(p[0]) for ch in chains for p in ch if p in pl}) > 1), pools[0])
                    viol.append(dict(cls="part-stored-more-than-once", key=f"part-stored-more-than-once:{where}", msg=f"target ({mu2}, {nf}): a block of its path is archived more than once in {where}: {[p[0] for p in dup]}"))
                    continue
                used[where] += [id(p[0]) for p in chains[0]]
                if where == "parts":
                    chains_for[(mu2, nf)] = chains[0]
            have = [h for h, _, _ in (ev_parts + ma_parts)] if where == "parts" else (ev_recs + ma_recs)
            for h in have:
                if id(h) not in used[where] and not viol:
                    viol.append(dict(cls="extra-part", key=f"extra-part:{where}", msg=f"archived {where} entry {h} is not on the path of any target (reference blocks: {required})"))
        # ---------------------------------------------------------------- (0) targets
        want = sorted(set((mu**2, nf) for mu, nf in case["operator"]["mugrid"]))
        if sorted(ops) != want:
            viol.append(dict(cls="targets-differ", key="targets-differ", msg=f"archived operators {sorted(ops)} vs requested targets {want}"))
        # ---------------------------------------------------------------- (3) ordered product
        if not viol:
            for (mu2, nf), blocks in per_target:
                got = ops[(mu2, nf)][0]
                chain = chains_for[(mu2, nf)]
                prod = None
                for p_ in chain:
                    prod = p_[1] if prod is None else dot4(p_[1], prod)  # later steps on the left
                scale = max(1.0, float(np.max(np.abs(prod)))) if np.all(np.isfinite(prod)) else 1.0
                if got.shape != prod.shape or not np.allclose(got, prod, rtol=1e-10, atol=1e-13 * scale):
                    dev = float(np.max(np.abs(got - prod))) if got.shape == prod.shape else float("nan")
                    # diagnose: is it the reversed product?
                    rev = None
                    for p_ in chain:
                        rev = p_[1] if rev is None else dot4(rev, p_[1])
                    hint = " (it equals the product in the REVERSED order)" if got.shape == rev.shape and np.allclose(got, rev, rtol=1e-10, atol=1e-13 * scale) and len(blocks) > 1 else ""
                    viol.append(dict(cls="operator-is-not-ordered-product", key="operator-is-not-ordered-product", msg=f"target ({mu2}, {nf}): stored operator differs from P_n...P_1 of the archived parts {[p_[0] for p_ in chain]} by {dev:.3e}{hint}", target=[mu2, nf]))
                    break
        sig = (len(required), probes["max_path_len"], probes["downward_targets"] > 0, probes["upward_targets"] > 0, probes["shared_parts"] > 0, probes["on_wall_targets"] > 0)
    res = dict(violations=viol, digest=digest, probes=probes, physics=case["physics"], sig=list(sig), sim_events=len(events), pool_runs=len(log), n_targets=len(per_target))
    if case["seed"] % 60 == 0 or viol:
        res["sample"] = dict(init=case["operator"]["init"], targets=case["operator"]["mugrid"], walls=walls, physics=case["physics"], blocks=[[list(b) for b in bl] for _, bl in per_target])
    return res


def _same_block(a, b):
    if a[0] != b[0]:
        return False
    if a[0] == "E":
        return fp.feq(a[1], b[1]) and fp.feq(a[2], b[2]) and a[3] == b[3]
    return fp.feq(a[1], b[1]) and a[2] == b[2] and a[3] == b[3]


def shrink(case, res, still, ddmin):
    c = dict(case)
    op = dict(c["operator"])
    changed = True
    while changed and len(op["mugrid"]) > 1:
        changed = False
        for i in range(len(op["mugrid"])):
            t = dict(c)
            o2 = dict(op)
            o2["mugrid"] = op["mugrid"][:i] + op["mugrid"][i + 1 :]
            t["operator"] = o2
            if still(t):
                c, op = t, o2
                changed = True
                break
    return c


ASSUMPTIONS = [
    "stub physics in the bulk of the cases: parts are deterministic dense non-commuting tensors keyed by the recipe header (a wrong order, a wrong part or a part computed for the wrong header cannot cancel); a sample runs the real interpreted kernels",
    "parts are identified by physical content (origin, target, nf) / (scale, hq, inverse) with floats matched to 1e-12 relative; the cliff flag is not part of the identity",
    "the product is compared to rtol 1e-10 / atol 1e-13*max|P| (association order of the reduce is not prescribed); the error array is not part of the verdict (its propagation rule is C44)",
    "the reference flavour-number path is an independent 20-line model (ekosim/models/flavour_path.py), not eko.matchings",
]


def summarize(results, tier):
    sigs, digests = set(), set()
    probes = {}
    phys = {}
    refused = events = 0
    samples = []
    lens = {}
    for r in results:
        if r.get("refused"):
            refused += 1
            continue
        sigs.add(tuple(r.get("sig", [])))
        p = r.get("probes") or {}
        for k, v in p.items():
            if k == "max_path_len":
                lens[v] = lens.get(v, 0) + 1
            else:
                probes[k] = probes.get(k, 0) + v
        if p.get("max_path_len", 0) > 1 or r.get("n_targets", 0) > 1:
            digests.add(r.get("digest"))
        phys[r.get("physics")] = phys.get(r.get("physics"), 0) + 1
        events += r.get("sim_events", 0)
        if r.get("sample") and len(samples) < 4:
            samples.append(r["sample"])
    return dict(
        evaluations=len(results) - refused,
        distinct_nontrivial=len(digests),
        rule="one evaluation = one seeded card solved by the real runner under the FS seam, then checked: every part computed and written exactly once, archived recipes/parts == union of the reference paths (nothing missing, nothing extra), every stored operator == ordered product of the archived parts; distinct_nontrivial = distinct seam-trace digests among cards with a multi-block path or more than one target",
        samples=samples or [dict(note="none")],
        physics=phys,
        refused_cards=refused,
        path_length_histogram={str(k): v for k, v in sorted(lens.items())},
        totals=probes,
        distinct_path_signatures=len(sigs),
        sim_events=events,
        faults_fired={},
        components=dict(real=["eko.runner.* (recipes, managed.solve, operators.retrieve/join)", "eko.matchings.Atlas", "eko.io.*"], stub=["physics of a part (stub tensor) unless physics=real", "multiprocessing.Pool -> SimPool", "clock, temp names"]),
    )
