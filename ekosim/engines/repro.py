"""C47 — solving is reproducible.

Each seed generates one pair of cards and two environments that differ in
everything the simulator owns: PYTHONHASHSEED (two fresh interpreters), temp
names, scratch root and cwd, absolute vs relative output path, directory
listing permutation, clock epoch/rate/jumps, simulated cpu count with a
negative core setting (so even the pool width differs), pool schedule.
"""

import hashlib
import json
import os
import subprocess
import sys

from .. import cards, env
from ..batch import HarnessError
from ..decider import Decider

NAME = "repro"


def generate(seed, tier, opts):
    k = int(opts.get("cards_per_case", 4))
    d0 = Decider(seed, "repro-env")
    hs = {tag: str(d0.between(f"hs{tag}", 1, 4294967295)) for tag in ("A", "B")}
    subs = []
    for i in range(k):
        c = gen_one(seed * 100 + i)
        for tag in ("A", "B"):
            c["envs"][tag]["hashseed"] = hs[tag]
        subs.append(c)
    return dict(seed=int(seed), cards=subs, hashseeds=hs)


def gen_one(seed):
    d = Decider(seed, "repro")
    th, op = cards.gen_cards(d, real=True, max_targets=2, allow_dup=True, qed_frac=0.08)
    if th["order"][0] > 1:
        op["mugrid"] = op["mugrid"][:2 if op["mugrid"][:1] == op["mugrid"][1:2] else 1]
    op["configs"]["n_integration_cores"] = d.pick("cores", [1, 2, 3, -1, -2, -3, 0])
    envs = {}
    for tag in ("A", "B"):
        envs[tag] = dict(
            hashseed=str(d.between(f"hs{tag}", 1, 4294967295)),
            cpu=d.between(f"cpu{tag}", 1, 16),
            subdir=d.pick(f"sub{tag}", ["x", "deep/er/dir", "with space", "z" * 40]),
            name=d.pick("name", ["out.tar", "result.tar"]),
            relative=d.chance(f"rel{tag}", 0.4),
        )
    envs["B"]["name"] = envs["A"]["name"]
    return dict(seed=int(seed), theory=th, operator=op, envs=envs)


def run_child(case, tag):
    e = dict(os.environ)
    e["PYTHONHASHSEED"] = case["hashseeds"][tag]
    e["EKOSIM_NO_REEXEC"] = "1"
    e["NUMBA_DISABLE_JIT"] = "1"
    p = subprocess.run(
        [sys.executable, os.path.join(env.VERIF, "ekosim", "child_solve.py")],
        input=json.dumps(dict(cases=case["cards"], tag=tag)),
        env=e,
        capture_output=True,
        text=True,
        timeout=900,
    )
    for line in p.stdout.splitlines():
        if line.startswith("RESULT "):
            return json.loads(line[7:])
    raise HarnessError(f"child {tag} produced no result: rc={p.returncode}\n{p.stdout[-1500:]}\n{p.stderr[-3000:]}")


def execute(case):
    ra = run_child(case, "A")
    rb = run_child(case, "B")
    tot = None
    for sub, a, b in zip(case["cards"], ra, rb):
        r = compare(sub, a, b)
        if tot is None:
            tot = r
            tot["digests"] = [r["digest"]]
            tot["pairs"] = 1
            tot["refused_n"] = 1 if r.get("refused") else 0
            continue
        tot["violations"] += r["violations"]
        tot["digests"].append(r["digest"])
        tot["pairs"] += 1
        tot["refused_n"] += 1 if r.get("refused") else 0
        for k, v in (r.get("probes") or {}).items():
            tot.setdefault("probes", {})
            tot["probes"][k] = tot["probes"].get(k, 0) + v
        tot["pools"] = tot.get("pools", []) + r.get("pools", [])
        tot["events"] = tot.get("events", 0) + r.get("events", 0)
        if r.get("sample") and not tot.get("sample"):
            tot["sample"] = r["sample"]
    tot.pop("refused", None)
    tot["digest"] = hashlib.sha256("".join(tot["digests"]).encode()).hexdigest()
    return tot


def compare(case, a, b):
    if not a["ok"] or not b["ok"]:
        if a.get("refused") and b.get("refused"):
            return dict(violations=[], refused=a["refused"], digest="refused")
        raise HarnessError(f"one environment refused the card, the other not: {a.get('refused')} / {b.get('refused')}")
    viol = []
    probes = dict(error_array_differs=0, pool_widths_differ=0, members=len(a["members"]))
    if [w for w, _ in a["pool"]] != [w for w, _ in b["pool"]]:
        probes["pool_widths_differ"] = 1
    na, nb = set(a["members"]), set(b["members"])
    if na != nb or a["dirs"] != b["dirs"]:
        viol.append(dict(cls="member-names-differ", key="member-names-differ", msg=f"archives hold different members: only in A {sorted(na - nb)[:6]}, only in B {sorted(nb - na)[:6]}, dirs equal: {a['dirs'] == b['dirs']}"))
    else:
        for name in sorted(na):
            ma, mb = a["members"][name], b["members"][name]
            top = name.split("/")[0]
            if ma["kind"] == "op":
                if ma["op"] != mb["op"]:
                    viol.append(dict(cls="operator-differs", key=f"operator-differs:{top}", msg=f"{name}: operator arrays of two runs on the same cards are not bitwise identical (hash seeds {a['hashseed']} / {b['hashseed']}, pools {a['pool']} / {b['pool']})"))
                    break
                if ma["err"] != mb["err"]:
                    probes["error_array_differs"] += 1
            elif ma["sha"] != mb["sha"]:
                what = "recipe" if top == "recipes" else ("header" if "/" in name else name)
                viol.append(dict(cls="yaml-bytes-differ", key=f"yaml-bytes-differ:{what}", msg=f"{name}: bytes differ between two runs on the same cards (hash seeds {a['hashseed']} / {b['hashseed']}):\nA: {ma.get('text')!r}\nB: {mb.get('text')!r}"))
                break
    digest = hashlib.sha256(json.dumps([a["members"], a["dirs"]], sort_keys=True).encode()).hexdigest()
    res = dict(violations=viol, digest=digest, probes=probes, pools=[a["pool"], b["pool"]], events=a["events"] + b["events"])
    if case["seed"] % 20 == 0 or viol:
        res["sample"] = dict(init=case["operator"]["init"], targets=case["operator"]["mugrid"], order=case["theory"]["order"], cores=case["operator"]["configs"]["n_integration_cores"], envs=case["envs"], pools=[a["pool"], b["pool"]])
    return res


def shrink(case, res, still, ddmin):
    for sub in case["cards"]:
        c = dict(case)
        c["cards"] = [sub]
        if still(c):
            return c
    return case


ASSUMPTIONS = [
    "two fresh interpreters per pair with different PYTHONHASHSEED; everything else that differs between the environments is simulated (temp names, scratch root, cwd, relative/absolute output path, listing order, clock, cpu count, pool schedule via SimPool)",
    "operators are compared as decoded arrays (np.savez embeds zip timestamps in the raw .npz bytes, which the statement does not cover); yaml members (cards, metadata, recipes, headers) are compared byte for byte; tar mtimes and member order are ignored",
    "a difference confined to the error arrays is a probe, not a violation",
    "interpreted kernels (NUMBA_DISABLE_JIT=1)",
]


def summarize(results, tier):
    probes = {}
    digests = set()
    refused = events = 0
    samples = []
    widths = set()
    npairs = 0
    for r in results:
        refused += r.get("refused_n", 0)
        npairs += r.get("pairs", 0)
        for k, v in (r.get("probes") or {}).items():
            probes[k] = probes.get(k, 0) + v
        digests.update(x for x in r.get("digests", []) if x != "refused")
        events += r.get("events", 0)
        for pl in r.get("pools", []):
            for w, _ in pl:
                widths.add(w)
        if r.get("sample") and len(samples) < 4:
            samples.append(r["sample"])
    return dict(
        evaluations=2 * (npairs - refused),
        distinct_nontrivial=len(digests),
        rule="one evaluation = one full solve (real interpreted physics) in a fresh interpreter; a case = two solves of the same cards under two adversarially different environments whose archives are compared member by member; distinct_nontrivial = distinct archive contents (digest of all member signatures) among the pairs",
        samples=samples or [dict(note="none")],
        pairs=npairs - refused,
        fresh_interpreters=2 * len(results),
        refused_cards=refused,
        probes=probes,
        pool_widths_seen=sorted(widths),
        sim_events=events,
        faults_fired={},
        components=dict(real=["whole solver incl. interpreted kernels", "eko.io.*", "python hash randomisation (fresh interpreters)"], stub=["multiprocessing.Pool -> SimPool", "clock, temp names, cpu count, listing order"]),
    )
