"""C36 / C37 / C39 — the EKO operator store against a persistent-map model.

One interpreter drives a real `EKO` (on the seamed file system: permuted
directory listings, seeded temp names) and a reference model from the same
operation list.  The interpreter is total: an operation that has no meaning in
the current state is skipped and logged, so every subsequence of a script is a
valid script (which is what makes ddmin shrinking work).
"""

import hashlib
import math
import os
import pathlib

import numpy as np

from .. import archive, cards, seams, values
from ..batch import HarnessError, Scratch
from ..decider import Decider

NAME = "store"


# ---------------------------------------------------------------------------
# generation


def gen_keypool(d, numpy_types=False, n=None):
    """3-6 evolution points: ulp-apart pairs, within/outside-tolerance pairs."""
    n = n or d.between("k:n", 3, 6)
    pool = []
    while len(pool) < n:
        base = d.pick("k:base", [round(d.uniform("k:s", 2.0, 1e4), 2), d.uniform("k:s", 2.0, 1e4), float(d.between("k:si", 2, 10000))])
        nf = d.pick("k:nf", [3, 4, 5, 6])
        rel = d.weighted("k:rel", [("single", 5), ("ulp", 2), ("near", 2), ("far", 2), ("samescale", 1)])
        new = [dict(scale=base, nf=nf)]
        if rel == "ulp":
            new.append(dict(scale=float(np.nextafter(base, np.inf)), nf=nf))
        elif rel == "near":
            new.append(dict(scale=base * (1 + 1e-9), nf=nf))
        elif rel == "far":
            new.append(dict(scale=base * (1 + 1e-3), nf=nf))
        elif rel == "samescale":
            new.append(dict(scale=base, nf=3 + (nf - 2) % 4))
        for k in new:
            if len(pool) < n and all(values.key_id(k) != values.key_id(o) for o in pool):
                st = "float"
                if k["scale"] == int(k["scale"]) and d.chance("k:int", 0.35):
                    st = "int"
                elif numpy_types:
                    st = d.weighted("k:st", [("float", 3), ("np64", 2), ("npgrid", 2)])
                k["stype"] = st
                k["ntype"] = "np64" if (numpy_types and d.chance("k:nt", 0.3)) else "int"
                pool.append(k)
    return pool


def gen_val(d, uid, nx, big=False):
    if big:
        p = d.pick("v:p", [1, 2, 5, 14])
        x = d.pick("v:x", [1, 2, 3, 8])
    else:
        p = d.pick("v:p", [1, 2, 2, 3])
        x = nx
    return dict(uid=uid, p=p, x=x, err=d.chance("v:err", 0.5), special=d.chance("v:special", 0.7))


def gen_c37(d, opts):
    pool = gen_keypool(d)
    nops = d.weighted("n", [(d.between("nshort", 2, 5), 5), (d.between("nmid", 6, 14), 3), (d.between("nlong", 15, 30), 2)])
    ops = [dict(id=0, op="create")]
    uid = 1
    # a "hot" key attracts most key-taking operations, so that multi-step
    # histories on ONE point (put, unload, read, overwrite, unload, read ...) are common
    hot = d.pick("hot", pool)
    hot_p = d.pick("hot_p", [0.0, 0.5, 0.8])
    # generator-side shadow of the session state: keeps most operations meaningful
    # (the interpreter stays total: ~10% of the operations ignore the shadow)
    st = dict(open=True, disk=False, mode="rw")
    lastval = {}
    for i in range(1, nops + 1):
        if d.chance("wild", 0.1):
            table = [("put", 7), ("get", 5), ("del", 4), ("ctx", 2), ("unload_all", 1), ("contains", 2), ("approx", 3), ("items", 1), ("close", 2), ("open_rw", 2), ("open_ro", 1), ("abandon", 1), ("create", 1)]
        elif st["open"] and st["mode"] == "rw":
            table = [("put", 9), ("get", 6), ("del", 5), ("ctx", 2), ("unload_all", 1), ("contains", 1), ("approx", 3), ("items", 1), ("close", 3), ("abandon", 1)]
        elif st["open"]:
            table = [("get", 6), ("del", 4), ("ctx", 2), ("unload_all", 1), ("contains", 1), ("approx", 3), ("items", 1), ("close", 3), ("abandon", 1)]
        elif st["disk"]:
            table = [("open_rw", 6), ("open_ro", 3), ("plant_sibling", 1)]
        else:
            table = [("create", 1)]
        kind = d.weighted("op", table)
        if kind == "create" and not st["open"] and not st["disk"]:
            st.update(open=True, mode="rw")
        elif kind in ("open_rw", "open_ro") and not st["open"] and st["disk"]:
            st.update(open=True, mode=kind[-2:])
        elif kind == "close" and st["open"]:
            if st["mode"] == "rw":
                st["disk"] = True
            st["open"] = False
        elif kind == "abandon" and st["open"]:
            st["open"] = False
        op = dict(id=i, op=kind)
        if kind == "plant_sibling":
            op["how"] = d.pick("plant:how", ["valid", "valid", "garbage"])
            op["suffix"] = d.pick("plant:suffix", [".tmp", ".tmp", ".bak", ".part"])
        if kind in ("put", "get", "del", "ctx", "contains"):
            op["key"] = hot if d.chance("usehot", hot_p) else d.pick("opkey", pool)
        if kind == "put":
            prev = lastval.get(values.key_id(op["key"]))
            if prev is not None and d.chance("twin", 0.25):
                # overwrite with a value that is ==-equal but bitwise different
                op["val"] = dict(prev, twin=uid)
            else:
                op["val"] = gen_val(d, uid, 2)
            lastval[values.key_id(op["key"])] = op["val"]
            uid += 1
        if kind == "approx":
            k = d.pick("opkey", pool)
            q = dict(k)
            q["scale"] = k["scale"] * (1 + d.pick("aeps", [0.0, 0.0, 1e-9, -1e-9, 5e-4, -5e-4, 0.2]))
            q["nf"] = d.weighted("anf", [(k["nf"], 5), (3 + (k["nf"] - 2) % 4, 1)])
            q["stype"] = "float"
            op["key"] = q
            op["rtol"] = d.pick("artol", [None, None, 1e-6, 1e-2, 1e-12])
            op["atol"] = d.pick("aatol", [None, None, 1e-10, 0.0])
        ops.append(op)
    th, opc = cards.gen_cards(d, real=False, max_targets=2)
    if not opts.get("_inner") and d.chance("second-eko", float(opts.get("second_eko", 0.3))):
        # interleave the history of a second EKO that uses the SAME evolution points
        inner = gen_c37(d.fork("second"), dict(opts, _inner=True))
        a, b = list(ops), []
        for o in inner["ops"]:
            o = dict(o)
            o["slot"] = 1
            o["id"] = 2000 + o["id"]
            if "key" in o and o["op"] != "approx":
                o["key"] = d.pick("second:key", pool)
            if "val" in o:
                o["val"] = dict(o["val"], uid=o["val"]["uid"] + 300)
            b.append(o)
        merged = []
        while a or b:
            take_a = a and (not b or d.chance("second:interleave", len(a) / (len(a) + len(b))))
            merged.append(a.pop(0) if take_a else b.pop(0))
        ops = merged
    relpath = (not opts.get("_inner")) and d.chance("relpath", 0.3)
    if relpath:
        out = []
        for o in ops:
            out.append(o)
            if d.chance("chdir", 0.25):
                out.append(dict(id=3000 + len(out), op="chdir", to=d.pick("chdir:to", ["out", "cwd1", "cwd2/deeper", "."]), slot=o.get("slot", 0)))
        ops = out
    return dict(config="c37", keys=pool, ops=ops, theory=th, operator=opc, relpath=relpath)


def vary_cards(d, th, opc):
    """Random variations of every enum / order / scheme (cards are data here)."""
    th["order"] = [d.between("cv:o", 1, 4), d.pick("cv:qed", [0, 0, 1, 2])]
    th["matching_order"] = d.pick("cv:mo", [[th["order"][0] - 1, 0], [0, 0], None])
    th["couplings"]["em_running"] = d.chance("cv:emr", 0.3)
    th["couplings"]["alphas"] = d.uniform("cv:as", 0.1, 0.13)
    th["xif"] = d.pick("cv:xif", [1.0, 0.5, 2.0, d.uniform("cv:xifr", 0.5, 2.0)])
    th["use_fhmruvv"] = d.chance("cv:fh", 0.5)
    th["n3lo_ad_variation"] = [d.between("cv:n3", 0, 3) for _ in range(7)]
    if d.chance("cv:msbar", 0.3):
        th["heavy"]["masses_scheme"] = "msbar"
        th["heavy"]["masses"] = [[m, m] for m, _ in th["heavy"]["masses"]]
    c = opc["configs"]
    c["evolution_method"] = d.pick(
        "cv:ev",
        ["iterate-exact", "iterate-expanded", "perturbative-exact", "perturbative-expanded", "truncated", "ordered-truncated", "decompose-exact", "decompose-expanded"],
    )
    c["scvar_method"] = d.pick("cv:sv", [None, "exponentiated", "expanded"])
    c["inversion_method"] = d.pick("cv:inv", [None, "exact", "expanded"])
    c["polarized"] = d.chance("cv:pol", 0.3)
    c["time_like"] = d.chance("cv:tl", 0.3)
    c["n_integration_cores"] = d.pick("cv:cores", [1, 2, -1, 0])
    c["ev_op_max_order"] = [d.between("cv:mo1", 1, 10), d.between("cv:mo2", 0, 3)]
    c["interpolation_is_log"] = d.chance("cv:log", 0.6)
    opc["debug"] = dict(skip_singlet=d.chance("cv:ss", 0.2), skip_non_singlet=d.chance("cv:sns", 0.2))
    n = d.between("cv:nx", 2, 8)
    lo = d.pick("cv:xlo", [1e-7, 1e-3, 0.1])
    xs = sorted(set(float(f"{lo * (1 / lo) ** (i / (n - 1)):.8g}") for i in range(n - 1))) + [1.0]
    opc["xgrid"] = xs
    c["interpolation_polynomial_degree"] = d.between("cv:deg", 1, max(1, min(4, len(xs) - 1)))
    return th, opc


def gen_recipes(d):
    """A few recipe headers (evolution segments and matchings)."""
    out = []
    for _ in range(d.between("r:n", 2, 4)):
        if d.chance("r:kind", 0.7):
            out.append(dict(kind="E", origin=round(d.uniform("r:o", 1.0, 100.0), 3), target=round(d.uniform("r:t", 1.0, 1e4), 3), nf=d.pick("r:nf", [3, 4, 5, 6]), cliff=d.chance("r:cliff", 0.3)))
        else:
            out.append(dict(kind="M", scale=round(d.uniform("r:s", 1.0, 1e4), 3), hq=d.pick("r:hq", [4, 5, 6]), inverse=d.chance("r:inv", 0.3)))
    return out


def gen_extras(d, tag, rpool, uid):
    """Edits other than operators: metadata (xgrid), parts, recipes."""
    out = []
    if d.chance(f"x:{tag}:xgrid", 0.35):
        n = d.between(f"x:{tag}:nx", 2, 6)
        grid = sorted(set(round(d.uniform(f"x:{tag}:xv", 1e-4, 0.9), 6) for _ in range(n - 1))) + [1.0]
        out.append(dict(op="set_xgrid", grid=grid, log=d.chance(f"x:{tag}:log", 0.7)))
    for _ in range(d.pick(f"x:{tag}:nparts", [0, 0, 1, 2])):
        out.append(dict(op="put_part", recipe=d.pick(f"x:{tag}:rp", rpool), val=gen_val(d, uid + len(out), 2, big=True)))
    if d.chance(f"x:{tag}:recipes", 0.3):
        out.append(dict(op="load_recipes", recipes=d.sample(f"x:{tag}:rs", rpool, d.between(f"x:{tag}:nr", 1, len(rpool)))))
    if d.chance(f"x:{tag}:update", 0.15):
        out.append(dict(op="update"))
    if d.chance(f"x:{tag}:metalow", 0.2):
        n = d.between(f"x:{tag}:nxl", 2, 5)
        grid = sorted(set(round(d.uniform(f"x:{tag}:xvl", 1e-4, 0.9), 6) for _ in range(n - 1))) + [1.0]
        out.append(dict(op="meta_lowlevel", grid=grid))
    return d.shuffle(f"x:{tag}:order", out)


def gen_c36(d, opts):
    pool = gen_keypool(d, numpy_types=True, n=d.between("k:n36", 1, 6))
    th, opc = cards.gen_cards(d, real=False, max_targets=2)
    th, opc = vary_cards(d, th, opc)
    ops = [dict(id=0, op="create")]
    i = 1
    uid = 1
    first = d.sample("c36:first", pool, d.between("c36:nfirst", 0, len(pool)))
    for k in first:
        ops.append(dict(id=i, op="put", key=k, val=gen_val(d, uid, 2, big=True)))
        i += 1
        uid += 1
    rpool = gen_recipes(d)
    for extra in gen_extras(d, "s1", rpool, uid):
        extra["id"] = i
        ops.append(extra)
        i += 1
        uid += 1
    ops.append(dict(id=i, op="close"))
    i += 1
    ops.append(dict(id=i, op="open_ro"))
    i += 1
    ops.append(dict(id=i, op="verify"))
    i += 1
    ops.append(dict(id=i, op="close"))
    i += 1
    ops.append(dict(id=i, op="open_rw"))
    i += 1
    firstvals = {values.key_id(o["key"]): o["val"] for o in ops if o["op"] == "put"}
    for k in d.sample("c36:second", pool, d.between("c36:nsecond", 0, len(pool))):
        prev = firstvals.get(values.key_id(k))
        if prev is not None and d.chance("c36:twin", 0.4):
            if d.chance("c36:twinload", 0.6):
                ops.append(dict(id=i, op="get", key=k))
                i += 1
            ops.append(dict(id=i, op="put", key=k, val=dict(prev, twin=uid)))
        else:
            ops.append(dict(id=i, op="put", key=k, val=gen_val(d, uid, 2, big=True)))
        i += 1
        uid += 1
    if d.chance("c36:touch", 0.5):
        ops.append(dict(id=i, op="get", key=d.pick("c36:g", pool)))
        i += 1
    for extra in gen_extras(d, "s2", rpool, uid + 100):
        extra["id"] = i
        ops.append(extra)
        i += 1
    ops.append(dict(id=i, op="close"))
    i += 1
    ops.append(dict(id=i, op="open_ro"))
    i += 1
    ops.append(dict(id=i, op="verify"))
    i += 1
    ops.append(dict(id=i, op="close"))
    return dict(config="c36", keys=pool, ops=ops, theory=th, operator=opc)


STORE_ATTEMPTS = ["put", "put_operators", "put_parts", "put_parts_matching", "load_recipes", "put_recipe", "set_xgrid", "update", "dump_default"]
HARMLESS = ["get", "del", "contains", "iter", "unload_all", "items", "approx", "cards", "dump_other", "close_again", "ctx", "get_recipe", "get_part", "sync_all", "meta_lowlevel", "rebuild"]


def gen_c39(d, opts):
    pool = gen_keypool(d, n=d.between("k:n39", 2, 4))
    rpool = gen_recipes(d)
    th, opc = cards.gen_cards(d, real=False, max_targets=2)
    ops = [dict(id=0, op="create")]
    i = 1
    uid = 1
    for k in d.sample("c39:first", pool, d.between("c39:nfirst", 1, len(pool))):
        ops.append(dict(id=i, op="put", key=k, val=gen_val(d, uid, 2)))
        i += 1
        uid += 1
    # recipes and parts stored while the EKO is still writable: later store
    # attempts hit headers the inventories already know
    if d.chance("c39:prerecipes", 0.7):
        ops.append(dict(id=i, op="load_recipes", recipes=d.sample("c39:rs", rpool, d.between("c39:nr", 1, len(rpool)))))
        i += 1
    for _ in range(d.pick("c39:npart", [0, 1, 2])):
        ops.append(dict(id=i, op="put_part", recipe=d.pick("c39:rp", rpool), val=gen_val(d, uid, 2)))
        i += 1
        uid += 1
    mode = d.weighted("c39:mode", [("ro", 4), ("closed_rw", 3), ("closed_ro", 2), ("mixed", 2)])
    if mode == "closed_rw":
        ops.append(dict(id=i, op="close"))
        i += 1
        if d.chance("c39:rebuild", 0.35):
            # the used builder is asked to build again before the attempts start
            ops.append(dict(id=i, op="rebuild"))
            i += 1
    else:
        ops.append(dict(id=i, op="close"))
        i += 1
        if d.chance("c39:plant", 0.3):
            ops.append(dict(id=i, op="plant_sibling", how=d.pick("plant:how", ["valid", "valid", "garbage"]), suffix=d.pick("plant:suffix", [".tmp", ".tmp", ".bak"])))
            i += 1
        ops.append(dict(id=i, op="open_ro"))
        i += 1
        if mode == "closed_ro":
            for _ in range(d.pick("c39:preread", [0, 1, 2])):
                ops.append(dict(id=i, op=d.pick("c39:prk", ["get_recipe", "get_part", "sync_all", "get"]), key=d.pick("c39:key", pool), recipe=d.pick("c39:rp", rpool)))
                i += 1
            ops.append(dict(id=i, op="close"))
            i += 1
    n = d.between("c39:n", 1, 14)
    for _ in range(n):
        if d.chance("c39:store", 0.6):
            kind = d.pick("c39:kind", STORE_ATTEMPTS)
        else:
            kind = d.pick("c39:hkind", HARMLESS)
        op = dict(id=i, op=kind)
        if kind in ("put", "put_operators", "get", "del", "contains", "ctx", "approx"):
            op["key"] = d.pick("c39:key", pool)
        if kind in ("put", "put_operators", "put_parts", "put_parts_matching"):
            op["val"] = gen_val(d, uid, 2)
            uid += 1
        if kind in ("put_parts", "put_parts_matching", "put_recipe", "get_recipe", "get_part"):
            op["recipe"] = d.pick("c39:rp", rpool)
        if kind == "load_recipes":
            op["recipes"] = d.sample("c39:rs", rpool, d.between("c39:nr", 1, len(rpool)))
        ops.append(op)
        i += 1
        if mode == "mixed" and d.chance("c39:mixclose", 0.2):
            ops.append(dict(id=i, op=d.pick("c39:mix", ["close", "open_ro"])))
            i += 1
    return dict(config="c39", keys=pool, ops=ops, theory=th, operator=opc)


def gen_c38h(d, opts):
    """Multi-session histories for the crash-recovery stage of C38: the same
    generator as C37 (sessions, puts, overwrites, unloads, closes, reopens) plus
    metadata / parts / recipe edits; the faults are chosen at execution time
    from the fault-free trace of the history."""
    case = gen_c37(d, opts)
    case["config"] = "c38h"
    rpool = gen_recipes(d)
    ops = []
    uid = 500
    for o in case["ops"]:
        ops.append(o)
        if o["op"] in ("put", "create", "open_rw") and d.chance("h:extra", 0.25):
            for extra in gen_extras(d, f"h{o['id']}", rpool, uid)[:2]:
                extra["id"] = 1000 + len(ops)
                ops.append(extra)
                uid += 1
    case["ops"] = ops
    case["nfaults"] = d.pick("h:nfaults", [1, 1, 2, 3])
    return case


def generate(seed, tier, opts):
    d = Decider(seed, "store-" + opts["config"])
    case = dict(c37=gen_c37, c36=gen_c36, c39=gen_c39, c38h=gen_c38h)[opts["config"]](d, opts)
    case["seed"] = int(seed)
    return case


# ---------------------------------------------------------------------------
# model


class Model:
    """A dictionary that is made persistent on close."""

    def __init__(self):
        self.disk = None  # {key_id: valspec} once an archive exists
        self.sess = None  # dict(mode, working, meta, parts, recipes)
        self.disk_extra = None  # dict(meta, parts, recipes) persisted with the archive

    def keys(self):
        return set(self.sess["working"]) if self.sess else set()

    def approx(self, q, nf, rtol, atol):
        """-> ('one', key) | ('none',) | ('many',) | ('boundary',)"""
        hits = []
        for s, n in self.sess["working"]:
            if n != nf:
                continue
            tol = atol + rtol * abs(s)
            diff = abs(q - s)
            if tol > 0 and abs(diff - tol) <= 1e-3 * tol:
                return ("boundary",)
            if diff <= tol:
                hits.append((s, n))
        if len(hits) == 1:
            return ("one", hits[0])
        if not hits:
            return ("none",)
        return ("many",)


# ---------------------------------------------------------------------------
# interpreter


def _num_key(ep):
    return (float(ep[0]), int(ep[1]))


def _sha(path):
    with open(path, "rb") as f:
        return hashlib.sha256(f.read()).hexdigest(), os.path.getsize(path)


class Interp:
    def __init__(self, case, root, sm, name="store"):
        self.case = case
        self.root = root
        self.sm = sm
        self.name = name
        self.path = pathlib.Path(root) / "out" / f"{name}.tar"
        self.model = Model()
        self.eko = None  # live EKO object (possibly closed)
        self.viol = []
        self.obs = hashlib.sha256()
        self.skipped = 0
        self.executed = 0
        self.states = set()
        self.bigrams = set()
        self.prev_kind = None
        self.mutations = 0
        self.probes = dict(mutating_event_on_archive_in_ro=0, store_attempts=0, store_attempts_raised=0, harmless_raised=0, approx_boundary=0)
        self.th, self.opc = cards.build(case["theory"], case["operator"])
        self.card_raw = None
        self.sha_at_open = None
        self.faulty = False
        self.committed = ("absent",)  # logical content of the archive after the last successful commit

    # ---------------------------------------------------------------- utils
    def v(self, cls, msg, op=None, key=None):
        self.viol.append(dict(cls=cls, key=key or cls, msg=msg, op=op["id"] if op else None))

    def note(self, *a):
        self.obs.update(repr(a).encode())

    def session_open(self):
        return self.model.sess is not None

    def abstract_state(self):
        m = self.model
        if m.sess is None:
            s = ("closed", m.disk is not None, tuple(sorted(m.disk)) if m.disk else ())
        else:
            loaded = ()
            if self.eko is not None:
                loaded = tuple(sorted(_num_key(t.ep) for t, o in self.eko.operators.cache.items() if o is not None))
            s = (m.sess["mode"], tuple(sorted(m.sess["working"])), loaded, tuple(sorted(m.disk)) if m.disk else None)
        return hashlib.sha256(repr(s).encode()).hexdigest()[:16]

    def expected(self, spec):
        return values.operator_from_spec(self.case["seed"], spec)

    def check_value(self, got, spec, op, what):
        if got is None:
            self.v("read-returned-none", f"{what}: store returned None for a present point", op)
            return
        exp = self.expected(spec)
        if not values.same_bits(got.operator, exp.operator):
            uid = None
            try:
                uid = float(np.asarray(got.operator).reshape(-1)[0])
            except Exception:
                pass
            self.v("wrong-value", f"{what}: operator array differs from the value written last (expected write #{spec['uid']}, got array tagged {uid}, shape {getattr(got.operator, 'shape', None)} dtype {getattr(got.operator, 'dtype', None)})", op)
            return
        if (got.error is None) != (exp.error is None):
            self.v("wrong-error-presence", f"{what}: error array {'missing' if got.error is None else 'unexpectedly present'} (write #{spec['uid']})", op)
            return
        if not values.same_bits(got.error, exp.error):
            self.v("wrong-error", f"{what}: error array differs from the one written (write #{spec['uid']})", op)

    def check_visible(self, op):
        """Non-perturbing observations after every operation."""
        if not self.session_open():
            return
        eko = self.eko
        want = self.model.keys()
        try:
            listed = [_num_key(ep) for ep in eko]
            grid = [_num_key(ep) for ep in eko.evolgrid]
            mu2 = sorted(float(x) for x in eko.mu2grid)
        except Exception as e:
            self.v("iteration-raised", f"iterating the EKO raised {e!r}", op)
            return
        self.note("vis", sorted(listed))
        if len(listed) != len(set(listed)) or set(listed) != want:
            extra = sorted(set(listed) - want)
            missing = sorted(want - set(listed))
            self.v("visible-set-differs", f"iteration lists {sorted(listed)}; the map holds {sorted(want)} (phantom {extra}, missing {missing})", op, key="visible-set-differs:" + ("phantom" if extra else "missing"))
            return
        if sorted(grid) != sorted(listed) or mu2 != sorted(s for s, _ in listed):
            self.v("grid-views-differ", f"evolgrid/mu2grid disagree with iteration: {grid} / {mu2} vs {listed}", op)
            return
        for k in self.case["keys"]:
            kid = values.key_id(k)
            try:
                got = values.realize_key(k) in eko
            except Exception as e:
                self.v("contains-raised", f"`{kid} in eko` raised {e!r}", op)
                return
            if got != (kid in want):
                self.v("membership-differs", f"`{kid} in eko` is {got}, the map says {kid in want}", op)
                return

    # -------------------------------------------------------------- session
    def do_create(self, op):
        from eko.io.struct import EKO

        if self.session_open() or self.model.disk is not None:
            return False
        builder = EKO.create(self.path)
        self.eko = builder.load_cards(self.th, self.opc).build()
        # kept: a used builder is asked to build again by C39's "rebuild" (a retry)
        self.builder, self.built = builder, self.eko
        self.card_raw = (self.th.raw, self.opc.raw)
        self.meta_raw = self.eko.metadata.raw
        self.model.sess = dict(mode="rw", working={}, meta=dict(self.meta_raw), parts={}, recipes=set())
        return True

    def do_open(self, op, mode):
        from eko.io.struct import EKO

        if self.session_open() or self.model.disk is None:
            return False
        with self.sm.paused():
            self.sha_at_open = _sha(self.path)
        self.ro_trace_start = self.sm.trace.n
        arg = self.path
        if self.case.get("relpath"):
            # the archive is named relative to the current working directory (which
            # later "chdir" operations change while the session is open)
            arg = pathlib.Path(os.path.relpath(self.path, os.getcwd()))
        try:
            self.eko = EKO.read(arg) if mode == "ro" else EKO.edit(arg)
        except Exception as e:
            self.v("reopen-raised", f"re-opening the archive ({mode}) raised {type(e).__name__}: {str(e)[:300]}", op, key=f"reopen-raised:{type(e).__name__}")
            self.eko = None
            return True
        ex = self.model.disk_extra or dict(meta=dict(self.meta_raw), parts={}, recipes=set())
        self.model.sess = dict(mode=mode, working=dict(self.model.disk), meta=dict(ex["meta"]), parts=dict(ex["parts"]), recipes=set(ex["recipes"]))
        return True

    def check_archive_unchanged(self, op, when):
        with self.sm.paused():
            if not self.path.exists():
                self.v("archive-vanished", f"{when}: the archive file no longer exists", op)
                return
            now = _sha(self.path)
        if self.sha_at_open is not None and now != self.sha_at_open:
            self.v("archive-bytes-changed", f"{when}: archive bytes changed (size {self.sha_at_open[1]} -> {now[1]})", op, key="archive-bytes-changed:" + when.split(":")[0])

    def scan_ro_trace(self):
        for ev in self.sm.trace.events[self.ro_trace_start :]:
            if str(ev[4]).startswith(f"out/{self.name}.tar") and ev[3] in ("open_w", "write", "unlink", "rename", "truncate", "close_w"):
                self.probes["mutating_event_on_archive_in_ro"] += 1

    def do_close(self, op):
        if not self.session_open() or self.eko is None:
            return False
        mode = self.model.sess["mode"]
        try:
            self.eko.close()
        except Exception as e:
            self.v("close-raised", f"close() of a {mode} session raised {e!r}", op)
            self.model.sess = None
            return True
        if mode == "rw":
            self.model.disk = dict(self.model.sess["working"])
            self.model.disk_extra = dict(meta=dict(self.model.sess["meta"]), parts=dict(self.model.sess["parts"]), recipes=set(self.model.sess["recipes"]))
            self.mutations += 1
            with self.sm.paused():
                self.sha_at_open = _sha(self.path) if self.path.exists() else None
                if self.faulty:
                    self.committed = archive.logical_or_state(str(self.path), os.path.exists)
        else:
            self.scan_ro_trace()
            self.check_archive_unchanged(op, "close of read-only session")
        self.model.sess = None
        return True

    def do_plant(self, op):
        """Durable junk left next to the archive by some hard-killed earlier process
        (nothing cleans up after a SIGKILL): a complete-looking, newer `<archive>.tmp`
        with other content, a truncated one, or a backup copy.  Not an operation on
        the EKO: nothing that follows may be influenced by it."""
        import shutil
        import tarfile

        if self.session_open() or self.model.disk is None:
            return False
        with self.sm.paused():
            if not self.path.exists():
                return False
            sib = self.path.with_name(self.path.name + op.get("suffix", ".tmp"))
            how = op.get("how", "valid")
            if how == "garbage":
                sib.write_bytes(self.path.read_bytes()[: max(1, self.path.stat().st_size // 3)])
            else:
                shutil.copyfile(self.path, sib)
                extra = self.path.with_name("junk-member")
                extra.write_text("scale: 1.0\nnf: 3\n")
                with tarfile.open(sib, "a") as tar:
                    tar.add(extra, arcname="./operators/AAAAAAAAAAA=.yaml")
                extra.unlink()
            now = self.path.stat().st_mtime
            os.utime(sib, (now + 5, now + 5))
        self.probes["junk_siblings_planted"] = self.probes.get("junk_siblings_planted", 0) + 1
        return True

    def do_abandon(self, op):
        if not self.session_open():
            return False
        mode = self.model.sess["mode"]
        self.model.sess = None
        self.eko = None
        if mode == "ro" or self.model.disk is not None:
            if self.model.disk is not None:
                self.check_archive_unchanged(op, "abandoned session")
        return True

    # ------------------------------------------------------------------ ops
    def check_committed(self, op, when):
        """Crash recovery: the archive holds exactly the last committed content."""
        with self.sm.paused():
            st = archive.logical_or_state(str(self.path), os.path.exists)
        if st == self.committed:
            return
        if st[0] == "corrupt":
            self.v("corrupt-after-failure", f"{when}: the archive is corrupt: {st[1]}", op, key="corrupt-after-failure:" + op["op"])
        else:
            what = "absent" if st[0] == "absent" else f"a complete archive with {len(st[1]) - 1} members"
            was = "absent" if self.committed[0] == "absent" else f"a complete archive with {len(self.committed[1]) - 1} members"
            self.v("changed-after-failure", f"{when}: the archive is {what}, different from the last committed content ({was})", op, key="changed-after-failure:" + op["op"])

    def step_faulty(self, op, kind):
        n0 = len(self.sm.faults_fired)
        v0 = len(self.viol)
        exc = None
        try:
            done = self.dispatch(op, kind)
        except HarnessError:
            raise
        except seams.ProcessKilled:
            # hard kill: the process is gone, nothing was cleaned up; a new process
            # (same disk) carries on.  The archive must be complete: the last committed
            # content, or - if the kill hit close() after its commit point - the new one.
            sess = self.model.sess
            self.eko = None
            self.model.sess = None
            import gc

            gc.collect()  # the dead process's objects go away now (their files are severed)
            self.sm.dead = False
            self.probes["sessions_killed"] = self.probes.get("sessions_killed", 0) + 1
            with self.sm.paused():
                st = archive.logical_or_state(str(self.path), os.path.exists)
            if st != self.committed:
                if st[0] == "ok" and kind == "close" and sess is not None and sess["mode"] == "rw":
                    # committed just before dying: adopt; later reads verify the content
                    self.model.disk = dict(sess["working"])
                    self.model.disk_extra = dict(meta=dict(sess["meta"]), parts=dict(sess["parts"]), recipes=set(sess["recipes"]))
                    self.committed = st
                    self.probes["kills_after_commit"] = self.probes.get("kills_after_commit", 0) + 1
                else:
                    self.check_committed(op, f"after the process was killed during {kind}")
            self.note(op["id"], kind, "killed", len(self.viol))
            return None
        except Exception as e:  # create / low-level paths that the fault-free interpreter never sees raising
            done, exc = True, e
        fired = len(self.sm.faults_fired) > n0
        new = self.viol[v0:]
        raised = exc is not None or any(v["cls"].endswith("-raised") for v in new)
        if fired and raised:
            # the operation failed because of the injected fault: the session (if
            # any) dies here, as a `with` block left through an exception does
            self.viol[v0:] = [v for v in new if not v["cls"].endswith("-raised")]
            self.model.sess = None
            self.eko = None
            self.probes["sessions_failed_by_fault"] = self.probes.get("sessions_failed_by_fault", 0) + 1
            self.probes["fault_in:" + kind] = self.probes.get("fault_in:" + kind, 0) + 1
            if not self.viol:
                self.check_committed(op, f"after {kind} failed with an injected fault")
            self.note(op["id"], kind, "failed", len(self.viol))
            return None
        if exc is not None:
            self.v("raised-without-fault", f"{kind} raised {exc!r} although no fault was injected into it", op)
            return None
        if fired:
            self.probes["faults_absorbed"] = self.probes.get("faults_absorbed", 0) + 1
        return done

    def step(self, op):
        kind = op["op"]
        self.sm.trace.begin_op(op["id"])
        if self.faulty:
            if not self.session_open() and kind not in ("create", "open_rw", "open_ro", "close", "abandon") and not self.viol:
                # restart after a crash: the user re-opens (or re-creates) and carries on
                again = "open_rw" if self.model.disk is not None else "create"
                self.sm.trace.begin_op(5000 + op["id"])
                r = self.step_faulty(dict(id=5000 + op["id"], op=again), again)
                self.probes["restarts"] = self.probes.get("restarts", 0) + 1
                if r and not self.viol:
                    self.check_visible(op)
                self.sm.trace.begin_op(op["id"])
                if self.viol:
                    return
            done = self.step_faulty(op, kind)
            if done is None:
                return
        else:
            done = self.dispatch(op, kind)
        if done:
            self.executed += 1
            self.bigrams.add((self.prev_kind, kind))
            self.prev_kind = kind
            self.states.add(self.abstract_state())
            if self.case["config"] != "c39" and not self.viol:
                self.check_visible(op)
        else:
            self.skipped += 1
        self.note(op["id"], kind, done, len(self.viol))

    def dispatch(self, op, kind):
        c39 = self.case["config"] == "c39"
        if kind == "create":
            return self.do_create(op)
        if kind in ("open_rw", "open_ro"):
            return self.do_open(op, kind[-2:])
        if kind == "close":
            return self.do_close(op)
        if kind == "abandon":
            return self.do_abandon(op)
        if kind == "plant_sibling":
            return self.do_plant(op)
        if kind == "chdir":
            os.chdir(os.path.join(self.root, op["to"]))
            return True
        if c39:
            return self.c39_op(op, kind)
        if not self.session_open() or self.eko is None:
            return False
        eko = self.eko
        w = self.model.sess["working"]
        mode = self.model.sess["mode"]
        if kind == "put":
            if mode != "rw":
                return False
            kid = values.key_id(op["key"])
            try:
                eko[values.realize_key(op["key"])] = self.expected(op["val"])
            except Exception as e:
                self.v("put-raised", f"storing {kid} raised {type(e).__name__}: {str(e)[:200]}", op, key=f"put-raised:{type(e).__name__}")
                return True
            w[kid] = op["val"]
            self.mutations += 1
            return True
        if kind == "get":
            kid = values.key_id(op["key"])
            try:
                got = eko[values.realize_key(op["key"])]
            except Exception as e:
                if kid in w:
                    self.v("read-raised", f"reading present point {kid} raised {type(e).__name__}: {str(e)[:300]}", op, key=f"read-raised:{type(e).__name__}")
                return True
            if kid not in w:
                self.v("absent-read-returned", f"reading absent point {kid} returned {type(got).__name__} instead of raising", op)
                return True
            self.check_value(got, w[kid], op, f"read {kid}")
            return True
        if kind == "del":
            try:
                del eko[values.realize_key(op["key"])]
            except Exception as e:
                if values.key_id(op["key"]) in w:
                    self.v("unload-raised", f"unloading present point raised {e!r}", op)
            return True
        if kind == "ctx":
            kid = values.key_id(op["key"])
            try:
                with eko.operator(values.realize_key(op["key"])) as got:
                    if kid not in w:
                        self.v("absent-read-returned", f"operator() context for absent point {kid} yielded instead of raising", op)
                    else:
                        self.check_value(got, w[kid], op, f"operator({kid})")
            except Exception as e:
                if kid in w:
                    self.v("read-raised", f"operator() context for present point {kid} raised {type(e).__name__}: {str(e)[:300]}", op, key=f"read-raised:{type(e).__name__}")
            return True
        if kind == "unload_all":
            try:
                eko.unload()
            except Exception as e:
                self.v("unload-raised", f"unload() raised {e!r}", op)
            return True
        if kind == "contains":
            return True  # membership of every pool key is checked after every op
        if kind == "approx":
            q = values.realize_key(op["key"])
            kw = {}
            if op.get("rtol") is not None:
                kw["rtol"] = op["rtol"]
            if op.get("atol") is not None:
                kw["atol"] = op["atol"]
            exp = self.model.approx(float(q[0]), int(q[1]), kw.get("rtol", 1e-6), kw.get("atol", 1e-10))
            if exp[0] == "boundary":
                self.probes["approx_boundary"] += 1
                return True
            try:
                got = eko.approx(q, **kw)
                res = ("none",) if got is None else ("one", _num_key(got))
            except ValueError:
                res = ("many",)
            except Exception as e:
                self.v("approx-raised", f"approx({q}, {kw}) raised {type(e).__name__}: {e!r}; the map says {exp}", op, key=f"approx-raised:{type(e).__name__}")
                return True
            if res != exp:
                self.v("approx-differs", f"approx({q}, {kw}) gave {res}; the map says {exp} (keys {sorted(w)})", op)
            return True
        if kind == "items":
            seen = []
            try:
                for ep, got in eko.items():
                    kid = _num_key(ep)
                    seen.append(kid)
                    if kid in w:
                        self.check_value(got, w[kid], op, f"items() {kid}")
            except Exception as e:
                self.v("items-raised", f"items() raised {type(e).__name__}: {str(e)[:300]}", op, key=f"items-raised:{type(e).__name__}")
                return True
            if sorted(seen) != sorted(w):
                self.v("visible-set-differs", f"items() yielded {sorted(seen)}; the map holds {sorted(w)}", op, key="visible-set-differs:items")
            return True
        if kind == "verify":
            return self.do_verify(op)
        if kind in ("set_xgrid", "put_part", "load_recipes", "update", "meta_lowlevel"):
            if mode != "rw":
                return False
            return self.do_extra(op, kind)
        raise HarnessError(f"unknown op {kind}")

    def do_extra(self, op, kind):
        """Explicit changes other than final operators: metadata, parts, recipes."""
        from eko import interpolation

        eko = self.eko
        sess = self.model.sess
        try:
            if kind == "set_xgrid":
                g = interpolation.XGrid(op["grid"], log=op.get("log", True))
                eko.xgrid = g
                sess["meta"] = dict(sess["meta"])
                sess["meta"]["xgrid"] = g.dump()["grid"]
            elif kind == "meta_lowlevel":
                # the public metadata container: change a field, persist it with its own update()
                g = interpolation.XGrid(op["grid"])
                eko.metadata.xgrid = g
                eko.metadata.update()
                sess["meta"] = dict(sess["meta"])
                sess["meta"]["xgrid"] = g.dump()["grid"]
            elif kind == "put_part":
                h = _header(op["recipe"])
                (eko.parts if op["recipe"]["kind"] == "E" else eko.parts_matching)[h] = self.expected(op["val"])
                sess["parts"][_rkey(op["recipe"])] = op["val"]
            elif kind == "load_recipes":
                eko.load_recipes([_header(r) for r in op["recipes"]])
                sess["recipes"].update(_rkey(r) for r in op["recipes"])
            else:
                eko.update()
        except Exception as e:
            self.v("edit-raised", f"{kind} on a writable EKO raised {type(e).__name__}: {str(e)[:200]}", op, key=f"edit-raised:{kind}")
            return True
        self.mutations += 1
        return True

    def do_verify(self, op):
        """Full read-back (C36): every point bitwise, cards and metadata equal."""
        eko = self.eko
        w = self.model.sess["working"]
        listed = sorted(_num_key(ep) for ep in eko)
        if listed != sorted(w):
            self.v("visible-set-differs", f"after re-reading, evolution points are {listed}; written: {sorted(w)}", op, key="visible-set-differs:reread")
            return True
        for kid, spec in sorted(w.items()):
            try:
                got = eko[kid]
            except Exception as e:
                self.v("read-raised", f"after re-reading, point {kid} cannot be read: {type(e).__name__}: {str(e)[:300]}", op, key=f"read-raised:{type(e).__name__}")
                return True
            self.check_value(got, spec, op, f"re-read {kid}")
            del eko[kid]
        try:
            th = eko.theory_card.raw
            oc = eko.operator_card.raw
            md = eko.metadata.raw
        except Exception as e:
            self.v("cards-unreadable", f"cards/metadata cannot be read back: {type(e).__name__}: {str(e)[:300]}", op)
            return True
        if archive.canon(th) != archive.canon(self.card_raw[0]):
            self.v("theory-card-differs", f"theory card read back {th} != written {self.card_raw[0]}", op)
        elif archive.canon(oc) != archive.canon(self.card_raw[1]):
            self.v("operator-card-differs", f"operator card read back {oc} != written {self.card_raw[1]}", op)
        elif archive.canon(md) != archive.canon(self.model.sess["meta"]):
            self.v("metadata-differs", f"metadata read back {md} != written {self.model.sess['meta']}", op)
        return True

    # ------------------------------------------------------------------ C39
    def c39_op(self, op, kind):
        """Store attempts and harmless operations on read-only / closed EKOs."""
        from eko import interpolation
        from eko.io.items import Evolution, Matching, Target

        eko = self.eko
        sess = self.model.sess
        if eko is None or (sess is None and self.model.disk is None):
            return False
        if sess is not None and sess["mode"] == "rw":
            # a writable open EKO: only the generator's initial puts happen here
            if kind == "put":
                kid = values.key_id(op["key"])
                eko[values.realize_key(op["key"])] = self.expected(op["val"])
                sess["working"][kid] = op["val"]
                return True
            if kind in ("load_recipes", "put_part"):
                return self.do_extra(op, kind)
            return False
        state = "read-only" if sess is not None else "closed"
        if sess is None:
            with self.sm.paused():
                self.sha_at_open = self.sha_at_open or _sha(self.path)
        store = kind in STORE_ATTEMPTS
        raised = None
        try:
            if kind == "put":
                eko[values.realize_key(op["key"])] = self.expected(op["val"])
            elif kind == "put_operators":
                eko.operators[Target.from_ep(values.realize_key(op["key"]))] = self.expected(op["val"])
            elif kind in ("put_parts", "put_parts_matching"):
                r = op.get("recipe")
                if r is None or (r["kind"] == "E") != (kind == "put_parts"):
                    h = Evolution(1.0, 2.0, 4) if kind == "put_parts" else Matching(2.0, 4, False)
                else:
                    h = _header(r)
                (eko.parts if kind == "put_parts" else eko.parts_matching)[h] = self.expected(op["val"])
            elif kind == "load_recipes":
                eko.load_recipes([_header(r) for r in op.get("recipes", [])] or [Evolution(1.0, 2.0, 4), Matching(2.0, 4, False)])
            elif kind == "put_recipe":
                r = op.get("recipe")
                h = _header(r) if r is not None else Evolution(1.0, 3.0, 4, cliff=True)
                (eko.recipes if isinstance(h, Evolution) else eko.recipes_matching)[h] = None
            elif kind == "get_recipe":
                h = _header(op["recipe"])
                (eko.recipes if isinstance(h, Evolution) else eko.recipes_matching)[h]
            elif kind == "get_part":
                h = _header(op["recipe"])
                (eko.parts if isinstance(h, Evolution) else eko.parts_matching)[h]
            elif kind == "meta_lowlevel":
                # below the EKO API: the metadata view writes into the working
                # directory without an access check; whatever it does, the archive
                # of a read-only / closed EKO must not change
                eko.metadata.xgrid = interpolation.XGrid([0.3, 0.7, 1.0])
                eko.metadata.update()
            elif kind == "sync_all":
                for inv in (eko.recipes, eko.recipes_matching, eko.parts, eko.parts_matching, eko.operators):
                    inv.sync()
            elif kind == "set_xgrid":
                eko.xgrid = interpolation.XGrid([0.2, 0.6, 1.0])
            elif kind == "update":
                eko.update()
            elif kind == "dump_default":
                eko.dump()
            elif kind == "get":
                eko[values.realize_key(op["key"])]
            elif kind == "del":
                del eko[values.realize_key(op["key"])]
            elif kind == "contains":
                values.realize_key(op["key"]) in eko
            elif kind == "iter":
                list(eko)
            elif kind == "unload_all":
                eko.unload()
            elif kind == "items":
                for _ in eko.items():
                    pass
            elif kind == "approx":
                eko.approx(values.realize_key(op["key"]))
            elif kind == "cards":
                eko.theory_card
                eko.operator_card
            elif kind == "ctx":
                with eko.operator(values.realize_key(op["key"])):
                    pass
            elif kind == "dump_other":
                eko.dump(pathlib.Path(self.root) / "out" / f"other-{op['id']}.tar")
            elif kind == "rebuild":
                # the used builder of a closed created EKO is asked to build once
                # more (a retry in user code).  Whether that raises is not C39's
                # business and the result is dropped unclosed (kept referenced, so
                # no finalizer of it runs inside the session); the CLOSED handle
                # must go on refusing stores and the archive must not change
                b = getattr(self, "builder", None)
                if b is None or getattr(self, "built", None) is not eko or sess is not None:
                    self.note("c39", kind, "skipped")
                    return False
                self.probes["rebuilds"] = self.probes.get("rebuilds", 0) + 1
                self.rebuilt = getattr(self, "rebuilt", [])
                self.rebuilt.append(b.build())
            elif kind == "close_again":
                eko.close()
                if sess is not None:
                    self.scan_ro_trace()
                    self.model.sess = None
            else:
                raise HarnessError(f"unknown c39 op {kind}")
        except HarnessError:
            raise
        except Exception as e:
            raised = e
        self.note("c39", kind, type(raised).__name__)
        if store:
            self.probes["store_attempts"] += 1
            self.mutations += 1
            if raised is None:
                self.v("store-attempt-not-refused", f"{kind} on a {state} EKO did not raise", op, key=f"store-attempt-not-refused:{kind}:{state}")
            else:
                self.probes["store_attempts_raised"] += 1
        elif raised is not None:
            self.probes["harmless_raised"] += 1
        self.check_archive_unchanged(op, f"{state}: after {kind}")
        return True


def _header(r):
    from eko.io.items import Evolution, Matching

    if r["kind"] == "E":
        return Evolution(origin=r["origin"], target=r["target"], nf=r["nf"], cliff=r["cliff"])
    return Matching(scale=r["scale"], hq=r["hq"], inverse=r["inverse"])


def _rkey(r):
    if r["kind"] == "E":
        return ("E", float(r["origin"]), float(r["target"]), int(r["nf"]), bool(r["cliff"]))
    return ("M", float(r["scale"]), int(r["hq"]), bool(r["inverse"]))


def _hkey(inv, h):
    if inv.endswith("matching"):
        return ("M", float(h["scale"]), int(h["hq"]), bool(h["inverse"]))
    return ("E", float(h["origin"]), float(h["target"]), int(h["nf"]), bool(h["cliff"]))


def _reason(text):
    """Class of a corruption message, without file stems."""
    import re

    t = re.sub(r"[A-Za-z0-9_\-]{10,12}=", "<stem>", str(text))
    return t[:60]


def final_audit(it):
    """Close what is open, then read the archive back independently and via eko."""
    m = it.model
    if it.case["config"] == "c39":
        if it.session_open() and it.eko is not None:
            mode = m.sess["mode"]
            try:
                it.eko.close()
            except Exception as e:
                it.v("close-raised", f"final close() raised {e!r}")
            if mode == "rw":
                m.disk = dict(m.sess["working"])
            else:
                it.scan_ro_trace()
                it.check_archive_unchanged(None, "close of read-only session")
            m.sess = None
        return
    if it.session_open() and it.eko is not None:
        it.step(dict(id=-2, op="close"))
    if m.disk is None or it.viol:
        return
    with it.sm.paused():
        st = archive.logical_or_state(str(it.path), os.path.exists)
        if st[0] != "ok":
            it.v("final-archive-corrupt", f"after the last close the archive is {st[:2]}", key="final-archive-corrupt:" + _reason(st[1]))
            return
        files, _ = archive.read_members(str(it.path))
        try:
            inv = archive.load_inventory(files, "operators")
        except Exception as e:
            it.v("final-archive-corrupt", f"operators inventory undecodable: {e!r}")
            return
        got = {}
        for header, op, err, stem in inv:
            try:
                got[(float(header["scale"]), int(header["nf"]))] = (op, err)
            except Exception as e:
                it.v("final-header-unreadable", f"header {stem}: {header!r}: {e!r}")
                return
        if sorted(got) != sorted(m.disk):
            it.v("final-content-differs", f"archive holds points {sorted(got)}; the map holds {sorted(m.disk)}")
            return
        for kid, spec in m.disk.items():
            exp = it.expected(spec)
            op, err = got[kid]
            if op is None or not values.same_bits(op, exp.operator) or not values.same_bits(err, exp.error):
                it.v("final-content-differs", f"archived arrays of {kid} differ from write #{spec['uid']}")
                return
        ex = m.disk_extra
        if ex is not None:
            import yaml

            md = yaml.safe_load(files["metadata.yaml"].decode())
            if archive.canon(md) != archive.canon(ex["meta"]):
                it.v("final-metadata-differs", f"archived metadata {md} != last written {ex['meta']}")
                return
            have_parts = {}
            have_recipes = set()
            try:
                for inv in ("parts", "parts/matching"):
                    for header, op, err, stem in archive.load_inventory(files, inv):
                        have_parts[_hkey(inv, header)] = (op, err)
                for inv in ("recipes", "recipes/matching"):
                    for header, op, err, stem in archive.load_inventory(files, inv):
                        have_recipes.add(_hkey(inv, header))
            except Exception as e:
                it.v("final-archive-corrupt", f"parts/recipes undecodable: {e!r}")
                return
            if sorted(have_parts) != sorted(ex["parts"]):
                it.v("final-parts-differ", f"archive holds parts {sorted(have_parts)}; written: {sorted(ex['parts'])}")
                return
            for k, spec in ex["parts"].items():
                exp = it.expected(spec)
                op, err = have_parts[k]
                if op is None or not values.same_bits(op, exp.operator) or not values.same_bits(err, exp.error):
                    it.v("final-parts-differ", f"archived arrays of part {k} differ from write #{spec['uid']}")
                    return
            if have_recipes != set(ex["recipes"]):
                it.v("final-recipes-differ", f"archive holds recipes {sorted(have_recipes)}; loaded: {sorted(ex['recipes'])}")
                return


def _run_history(case, root, faults=None):
    os.makedirs(os.path.join(root, "out"))
    os.makedirs(os.path.join(root, "cwd1"))
    os.makedirs(os.path.join(root, "cwd2", "deeper"))
    if case.get("relpath"):
        os.chdir(os.path.join(root, "out"))
    d = Decider(case["seed"], "fs")
    tr = seams.Trace()
    sm = seams.Seams(root, d, trace=tr, plan=seams.FaultPlan(faults or []), trace_reads=bool(case["config"] == "c38h"), cpu_count=4)
    with sm:
        it = Interp(case, root, sm)
        it.faulty = case["config"] == "c38h"
        # a second, independent EKO (another archive) may be alive at the same time:
        # operations carrying slot=1 go to it; nothing it does may show in the first
        other = Interp(case, root, sm, name="other") if any(o.get("slot") for o in case["ops"]) else None
        if other is not None:
            other.faulty = it.faulty
        for op in case["ops"]:
            tgt = other if (op.get("slot") and other is not None) else it
            tgt.step(op)
            if it.viol or (other is not None and other.viol):
                break
        if not it.viol and not (other is not None and other.viol):
            final_audit(it)
            if other is not None and not it.viol:
                final_audit(other)
        if other is not None:
            for v in other.viol:
                v["msg"] = "[second EKO] " + v["msg"]
            it.viol += other.viol
            it.executed += other.executed
            it.skipped += other.skipped
            it.mutations += other.mutations
            it.states |= {"b:" + x for x in other.states}
            it.obs.update(other.obs.hexdigest().encode())
            it.probes["second_eko_ops"] = other.executed
            for k, v in other.probes.items():
                if isinstance(v, int) and k != "second_eko_ops":
                    it.probes[k] = it.probes.get(k, 0) + v
    return it, tr, sm


def choose_faults(case, events):
    """1-3 fault sites from the fault-free trace, commit phases over-weighted."""
    from .crash import fs_fault_for

    d = Decider(case["seed"], "history-faults")
    kinds = {o["id"]: o["op"] for o in case["ops"]}
    pool, weights = [], []
    for ev in events:
        k = kinds.get(ev[1])
        if k is None:
            continue
        w = {"close": 6.0, "open_rw": 2.0, "open_ro": 1.0, "create": 0.4, "put": 2.0}.get(k, 1.0)
        if str(ev[4]).startswith("out/"):
            w *= 3.0
        pool.append(ev)
        weights.append(w)
    out = []
    for _ in range(min(case.get("nfaults", 1), len(pool))):
        x = d.uniform("site") * sum(weights)
        acc = 0.0
        for i, w in enumerate(weights):
            acc += w
            if x < acc:
                break
        ev = pool.pop(i)
        weights.pop(i)
        f = fs_fault_for(d, ev)
        if d.chance("kill", 0.25):
            f = dict(type="fs", op=ev[1], local=ev[2], kind="kill", site=f["site"])
        f["in_op"] = kinds.get(ev[1])
        out.append(f)
    return out


def execute(case):
    faults = None
    ref_events = 0
    if case["config"] == "c38h":
        faults = case.get("faults")
        if faults is None:
            with Scratch("store") as root:
                it0, tr0, _ = _run_history(case, root, [])
                if it0.viol:
                    # fault-free pass already violates (C37's business; report it here too)
                    return dict(violations=it0.viol, digest=tr0.digest(), probes=it0.probes, nops=len(case["ops"]))
                ref_events = tr0.n
                faults = choose_faults(case, tr0.events)
    with Scratch("store") as root:
        it, tr, sm = _run_history(case, root, faults)
        digest = hashlib.sha256((tr.digest() + it.obs.hexdigest()).encode()).hexdigest()
        sample = None
        if case["seed"] % 97 == 0 or it.viol:
            sample = dict(config=case["config"], keys=[values.key_id(k) for k in case["keys"]], ops=[(o["op"], values.key_id(o["key"]) if "key" in o else None) for o in case["ops"]], faults=faults)
        for v in it.viol:
            if faults is not None:
                v["faults"] = faults
        fired = {}
        for f in sm.faults_fired:
            fired[f.get("kind", "oserror")] = fired.get(f.get("kind", "oserror"), 0) + 1
        return dict(
            violations=it.viol,
            digest=digest,
            executed=it.executed,
            skipped=it.skipped,
            mutations=it.mutations,
            states=sorted(it.states),
            bigrams=sorted(f"{a}>{b}" for a, b in it.bigrams),
            probes=it.probes,
            sim_events=tr.n + ref_events,
            sample=sample,
            nops=len(case["ops"]),
            faults_planned=len(faults or []),
            faults_fired=fired,
            fault_sigs=sorted(set((f.get("in_op"), f.get("site"), f.get("kind")) for f in (faults or []))),
        )


def focus(case, v):
    c = dict(case)
    if v.get("faults") is not None:
        c["faults"] = v["faults"]
    return c


def shrink(case, res, still, ddmin):
    c = focus(case, res["violations"][0])
    if not still(c):
        return case

    def fails(sub):
        t = dict(c)
        t["ops"] = sub
        return still(t)

    if len(c["ops"]) > 1:
        c["ops"] = ddmin(c["ops"], fails)
    return c


ASSUMPTIONS = [
    "file system faults are off in this engine (fault-free configuration; faults are C38's engine) — only directory-listing order and temp names are adversarial",
    "exception types are not part of the oracle (only 'raises'); identity of returned objects and iteration order are not demanded",
    "approximate lookups whose distance lies within 0.1% of the tolerance boundary are not judged (the model does not encode isclose's asymmetry)",
    "caller mutation of returned arrays is not generated (the store documents that in-place edits need re-assignment)",
]


def summarize(results, tier):
    states, bigrams, digests = set(), set(), set()
    fired, fsigs = {}, set()
    ex = sk = ev = 0
    probes = {}
    samples = []
    nontrivial = set()
    lens = {}
    for r in results:
        states.update(r.get("states", []))
        bigrams.update(r.get("bigrams", []))
        ex += r.get("executed", 0)
        sk += r.get("skipped", 0)
        ev += r.get("sim_events", 0)
        for k, v in (r.get("probes") or {}).items():
            probes[k] = probes.get(k, 0) + v
        if r.get("mutations", 0) > 0:
            nontrivial.add(r.get("digest"))
        if r.get("sample") and len(samples) < 5:
            samples.append(r["sample"])
        b = min(30, r.get("nops", 0)) // 5 * 5
        lens[f"{b}-{b + 4}"] = lens.get(f"{b}-{b + 4}", 0) + 1
        for k, v in (r.get("faults_fired") or {}).items():
            fired[k] = fired.get(k, 0) + v
        for sg in r.get("fault_sigs", []):
            fsigs.add(tuple(sg))
    extra = {}
    if fsigs:
        extra = dict(distinct_fault_site_signatures=len(fsigs), note="histories run twice: a fault-free pass records the trace, 1-3 fault sites are drawn from it (commit phases over-weighted) and the history is re-run; an operation failing through an injected fault kills its session, after which the archive must hold exactly the last committed content")
    return dict(
        **extra,
        evaluations=len(results),
        distinct_nontrivial=len(nontrivial),
        rule="one evaluation = one seeded operation history executed on a real EKO and on the persistent-map model in lock step (oracle after every operation, final audit with an independent archive reader); distinct_nontrivial = distinct run digests (seam trace + observations) among runs with at least one mutating store operation (put / committed close / store attempt)",
        samples=samples or [dict(note="no sample")],
        operations_executed=ex,
        operations_skipped_as_meaningless=sk,
        distinct_states=len(states),
        distinct_state_measure="sha of (mode, sorted keys, loaded set, sorted disk keys) after each executed op",
        op_bigrams_covered=len(bigrams),
        history_length_histogram=lens,
        probes=probes,
        sim_events=ev,
        faults_fired=fired,
        components=dict(real=["eko.io.* (EKO, Inventory, items, metadata, tar dump/extract)", "kernel file system behind the FS seam"], stub=["temp names, clock, directory-listing order (simulated)"]),
    )
