"""C03 — EKOs do not depend on parallel schedule, target order or co-computed targets.

integration level: one part (evolution segment or matching) computed on the
plain sequential path and under SimPool with several widths and seeded
schedules — bitwise equal.
runner level: baseline solve on one core; then every permutation of the targets,
every non-empty subset, and the same card on a simulated pool — the stored
operator of every target present is bitwise the baseline's.
"""

import copy
import hashlib
import itertools
import os
import pathlib

import numpy as np

from .. import archive, cards, seams, simpool, stubphys
from ..batch import HarnessError, Scratch
from ..decider import Decider
from .crash import PhysicsPatch

NAME = "pool"


def generate(seed, tier, opts):
    d = Decider(seed, "pool")
    mode = d.weighted("mode", [("integration", opts.get("w_integration", 3)), ("runner-real", opts.get("w_runner_real", 2)), ("runner-stub", opts.get("w_runner_stub", 6)), ("fidelity", opts.get("w_fidelity", 0))])
    real = mode != "runner-stub"
    th, op = cards.gen_cards(d, real=real, max_targets=3, xgrid_max=8 if mode in ("integration", "fidelity") else 4, qed_frac=0.1 if mode in ("integration", "fidelity") else 0.0)
    if real and mode != "runner-real":
        op["mugrid"] = op["mugrid"][:1]
        if len(op["xgrid"]) > 4 and th["order"][0] > 1 and th["order"][1] == 0:
            # larger grids only with the (cheap) LO kernels
            th["order"] = [1, 0]
            th["matching_order"] = [0, 0]
    if mode == "runner-real" and th["order"][0] > 1:
        op["mugrid"] = op["mugrid"][:2]  # bound the cost of interpreted NLO kernels
    case = dict(seed=int(seed), mode=mode, theory=th, operator=op)
    cpu = d.between("cpu", 2, 12)
    widths = []
    for _ in range(int(opts.get("n_widths", 3))):
        widths.append(d.pick("width", [2, 2, 3, 3, 4, 5, -1, -2, -(cpu - 2), -(cpu - 1), -cpu]))
    case["cpu"] = cpu
    case["widths"] = widths
    case["schedules"] = int(opts.get("n_schedules", 2))
    case["which_part"] = d.below("part", 1000)
    return case


# ---------------------------------------------------------------------------


def _with_cores(op_raw, cores, mugrid=None):
    o = copy.deepcopy(op_raw)
    o["configs"]["n_integration_cores"] = cores
    if mugrid is not None:
        o["mugrid"] = [list(t) for t in mugrid]
    return o


def _solve(case, root, tag, op_raw, pool_seed=None, stub=False, log=None, ns="run"):
    """One solve in its own sub-directory; returns {target key: (opsig, errsig)}."""
    from eko.runner.managed import solve

    sub = os.path.join(root, tag)
    os.makedirs(os.path.join(sub, "out"))
    th, op = cards.build(case["theory"], op_raw)
    target = pathlib.Path(sub) / "out" / "r.tar"
    d = Decider(case["seed"], f"fs:{ns}:{tag}")
    sm = seams.Seams(sub, d, cpu_count=case["cpu"], trace_stats=False)
    fake = dict(case)
    fake["physics"] = "stub" if stub else "real"
    with PhysicsPatch(fake) as phys:
        with simpool.PoolPatch(Decider(case["seed"], f"pool:{pool_seed}"), log=log):
            with sm:
                solve(th, op, target)
    files, _ = archive.read_members(str(target))
    out = {}
    for header, opa, err, stem in archive.load_inventory(files, "operators"):
        out[(float(header["scale"]).hex(), int(header["nf"]))] = (archive.array_sig(opa), archive.array_sig(err))
    return out, sm.trace.digest(), len(phys.calls)


def _compare(base, other, what, viol, probes, cls):
    for k, (osig, esig) in other.items():
        if k not in base:
            viol.append(dict(cls="target-missing-in-baseline", key=cls, msg=f"{what}: target {k} not in baseline (harness?)"))
            return
        if osig != base[k][0]:
            viol.append(dict(cls=cls, key=cls, msg=f"{what}: operator of target ({float.fromhex(k[0])}, {k[1]}) is not bitwise identical to the one from the baseline run (one core, listed order, all targets)", variant=what))
            return
        if esig != base[k][1]:
            probes["error_array_differs"] = probes.get("error_array_differs", 0) + 1


def run_runner(case, root, stub):
    viol, probes, sigs = [], {}, set()
    log = []
    n_solves = 0
    digests = []
    base_op = _with_cores(case["operator"], 1)
    targets = [tuple(t) for t in base_op["mugrid"]]
    try:
        base, dg, ncalls = _solve(case, root, "base", base_op, stub=stub)
    except NotImplementedError as e:
        return dict(violations=[], refused=repr(e), digest="refused")
    digests.append(dg)
    n_solves += 1
    variants = []
    for perm in itertools.permutations(targets):
        if list(perm) != targets:
            variants.append(("perm", list(perm), 1))
    for r in range(1, len(targets)):
        for sub in itertools.combinations(targets, r):
            variants.append(("subset", list(sub), 1))
    if not stub:
        for i, w in enumerate(case["widths"]):
            for s in range(case["schedules"]):
                variants.append(("pool", targets, w, f"{i}.{s}"))
    only = case.get("only_variant")
    for vi, v in enumerate(variants):
        if only is not None and vi != only:
            continue
        kind, tg, cores = v[0], v[1], v[2]
        op_raw = _with_cores(case["operator"], cores, tg)
        tag = f"v{vi}"
        got, dg, _ = _solve(case, root, tag, op_raw, pool_seed=v[3] if kind == "pool" else None, stub=stub, log=log)
        digests.append(dg)
        n_solves += 1
        what = f"{kind} {tg} cores={cores}"
        before = len(viol)
        _compare(base, got, what, viol, probes, {"perm": "target-order-dependence", "subset": "co-target-dependence", "pool": "schedule-dependence"}[kind])
        if len(viol) > before:
            viol[-1]["variant_index"] = vi
            break
    for rec in log:
        sigs.add((rec["width"], rec["assign"], rec["delivered"]))
    return dict(violations=viol, probes=probes, n_solves=n_solves, n_targets=len(targets), pool_runs=len(log), schedules=sorted(sigs), digest=hashlib.sha256("".join(digests).encode()).hexdigest(), variants=len(variants))


def _one_part(case, root, tag, cores, recipe_index, pool_seed, log, real_pool=False, worker_fault=None):
    """Compute ONE part through the real parts.evolve/match on a fresh EKO."""
    import eko.evolution_operator as evop
    from eko.io.struct import EKO
    from eko.runner import parts, recipes

    sub = os.path.join(root, tag)
    os.makedirs(os.path.join(sub, "out"))
    th, op = cards.build(case["theory"], _with_cores(case["operator"], cores))
    d = Decider(case["seed"], f"fs:{tag}")
    sm = seams.Seams(sub, d, cpu_count=case["cpu"], trace_stats=False, clock=not real_pool)
    ctx = simpool.PoolPatch(Decider(case["seed"], f"pool:{pool_seed}"), log=log, fault=worker_fault)
    if real_pool:
        ctx = _Null()
    with ctx:
        with sm:
            builder = EKO.create(pathlib.Path(sub) / "out" / "p.tar")
            eko = builder.load_cards(th, op).build()
            recipes.create(eko)
            recs = sorted(list(eko.recipes) + list(eko.recipes_matching), key=lambda r: repr(r))
            rec = recs[recipe_index % len(recs)]
            if hasattr(rec, "hq"):
                res = parts.match(eko, rec)
            else:
                res = parts.evolve(eko, rec)
    return repr(rec), archive.array_sig(res.operator), archive.array_sig(res.error)


def module_state():
    """Digest of every module-level mutable container of eko / ekore.

    SimPool runs all "workers" in one process; that is only equivalent to real
    worker processes if no module-level state is written during a computation.
    """
    import sys

    out = {}
    for name in sorted(sys.modules):
        if not name.startswith(("eko.", "ekore.", "eko", "ekore")) or name.startswith("ekosim"):
            continue
        mod = sys.modules[name]
        for attr, v in sorted(vars(mod).items()):
            if attr.startswith("__"):
                continue
            if isinstance(v, np.ndarray):
                out[f"{name}.{attr}"] = hashlib.sha256(v.tobytes()).hexdigest()[:12]
            elif isinstance(v, (dict, list, set)):
                try:
                    out[f"{name}.{attr}"] = hashlib.sha256(repr(v).encode()).hexdigest()[:12]
                except Exception:
                    pass
    return out


class _Null:
    def __enter__(self):
        return self

    def __exit__(self, *a):
        return False


def run_integration(case, root, fidelity=False):
    viol, probes, sigs = [], {}, set()
    log = []
    try:
        rec, base_op, base_err = _one_part(case, root, "base", 1, case["which_part"], None, log)
    except NotImplementedError as e:
        return dict(violations=[], refused=repr(e), digest="refused")
    n = 1
    hist = [rec, str(base_op)]
    runs = []
    state0 = module_state()
    if fidelity:
        runs = [("realpool", w, 0) for w in case["widths"][:2] if w != 1]
    else:
        runs = [("sim", w, s) for w in case["widths"] for s in range(case["schedules"])]
    for i, (kind, w, s) in enumerate(runs):
        rec2, opsig, errsig = _one_part(case, root, f"r{i}", w, case["which_part"], f"{i}", log, real_pool=(kind == "realpool"))
        n += 1
        hist.append(str(opsig))
        if rec2 != rec:
            raise HarnessError("recipe selection is not stable")
        if opsig != base_op:
            viol.append(dict(cls="schedule-dependence" if kind == "sim" else "real-pool-differs", key=kind, msg=f"part {rec}: result with n_integration_cores={w} ({kind}, schedule #{s}, cpu_count={case['cpu']}) is not bitwise identical to the sequential result"))
            break
        if errsig != base_err:
            probes["error_array_differs"] = probes.get("error_array_differs", 0) + 1
    # a transient fault inside ONE pool worker (what a real machine does under memory
    # pressure): the computation must fail loudly or still deliver the sequential result
    if not fidelity and not viol and runs:
        d = Decider(case["seed"], "worker-fault")
        w = d.pick("width", [x for x in case["widths"] if x != 1] or [2])
        exc = d.pick("exc", ["OSError", "MemoryError", "FloatingPointError", "ValueError"])
        item = d.below("item", max(1, len(case["operator"]["xgrid"])))
        try:
            rec3, opsig3, _ = _one_part(case, root, "wf", w, case["which_part"], "wf", log, worker_fault=dict(item=item, exc=exc))
            n += 1
            probes["worker_faults_injected"] = probes.get("worker_faults_injected", 0) + 1
            if opsig3 != base_op:
                viol.append(dict(cls="worker-fault-swallowed", key="worker-fault-swallowed", msg=f"part {rec}: a {exc} raised inside pool worker item #{item} (n_integration_cores={w}) was swallowed and the computation returned a result that differs from the sequential one"))
            else:
                probes["worker_faults_absorbed_correctly"] = probes.get("worker_faults_absorbed_correctly", 0) + 1
        except HarnessError:
            raise
        except Exception:
            probes["worker_faults_injected"] = probes.get("worker_faults_injected", 0) + 1
            probes["worker_faults_raised"] = probes.get("worker_faults_raised", 0) + 1
    state1 = module_state()
    changed = sorted(k for k in set(state0) | set(state1) if state0.get(k) != state1.get(k))
    probes["module_level_containers_watched"] = len(state0)
    if changed:
        probes["module_state_changed_during_pool_runs"] = probes.get("module_state_changed_during_pool_runs", 0) + 1
        probes["changed:" + changed[0]] = 1
    for r in log:
        sigs.add((r["width"], r["assign"], r["delivered"]))
    return dict(violations=viol, probes=probes, n_solves=n, pool_runs=len(log), schedules=sorted(sigs), digest=hashlib.sha256("|".join(hist).encode()).hexdigest(), part=rec, fidelity_runs=len(runs) if fidelity else 0)


def execute(case):
    with Scratch("pool") as root:
        mode = case["mode"]
        if mode == "integration":
            res = run_integration(case, root)
        elif mode == "fidelity":
            res = run_integration(case, root, fidelity=True)
        elif mode == "runner-real":
            res = run_runner(case, root, stub=False)
        elif mode == "runner-stub":
            res = run_runner(case, root, stub=True)
        else:
            raise HarnessError(f"unknown mode {mode}")
    res["mode"] = mode
    if case["seed"] % 50 == 0 or res["violations"]:
        res["sample"] = dict(mode=mode, init=case["operator"]["init"], targets=case["operator"]["mugrid"], order=case["theory"]["order"], widths=case["widths"], cpu=case["cpu"], part=res.get("part"))
    return res


def focus(case, v):
    c = dict(case)
    if "variant_index" in v:
        c["only_variant"] = v["variant_index"]
    return c


def shrink(case, res, still, ddmin):
    return focus(case, res["violations"][0])


ASSUMPTIONS = [
    "SimPool is a model of multiprocessing.Pool: chunking as in the stdlib, pickled transport of the bound Operator (incl. its Couplings cache) per chunk, item-granular interleaving; per-worker process-global module state and killed workers are not modelled; fidelity against the real fork Pool is sampled in the thorough tier",
    "kernels run interpreted (NUMBA_DISABLE_JIT=1); compiled-vs-interpreted agreement is property C48",
    "error arrays are compared too, but a difference confined to them is counted as a probe, not a violation (the statement is about the operator)",
]


def summarize(results, tier):
    modes, sigs, probes = {}, set(), {}
    solves = pool_runs = refused = fid = 0
    samples = []
    nontrivial = set()
    for r in results:
        if r.get("refused"):
            refused += 1
            continue
        modes[r.get("mode")] = modes.get(r.get("mode"), 0) + 1
        solves += r.get("n_solves", 0)
        pool_runs += r.get("pool_runs", 0)
        fid += r.get("fidelity_runs", 0)
        for s in r.get("schedules", []):
            sigs.add(repr(s))
        for k, v in (r.get("probes") or {}).items():
            probes[k] = probes.get(k, 0) + v
        if r.get("sample") and len(samples) < 5:
            samples.append(r["sample"])
        if r.get("n_solves", 0) >= 2:
            nontrivial.add(r.get("digest"))
    return dict(
        evaluations=solves,
        distinct_nontrivial=len(nontrivial),
        rule="one evaluation = one computation of a part (integration level) or one full solve (runner level) that is compared bitwise with its baseline; a case = baseline + its variants (pool widths x seeded schedules, all permutations of the targets, all proper non-empty subsets); distinct_nontrivial = distinct case digests among cases with at least one variant compared",
        samples=samples or [dict(note="none")],
        cases_by_mode=modes,
        refused_cards=refused,
        simulated_pool_runs=pool_runs,
        distinct_schedules=len(sigs),
        distinct_schedule_measure="(pool width, chunk->worker assignment, delivery order) of each simulated pool run",
        stub_fidelity=dict(real_pool_runs_compared_bitwise=fid),
        probes=probes,
        faults_fired={},
        components=dict(
            real=["Operator.integrate / run_op_integration orchestration and pickling", "eko.runner.* (recipes, parts, join)", "eko.io.*", "interpreted kernels (runner-real, integration)"],
            stub=["multiprocessing.Pool -> SimPool (seeded scheduler)", "physics of a part in runner-stub cases", "clock, cpu count, temp names"],
        ),
    )
