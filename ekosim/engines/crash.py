"""C38 — failed or interrupted runs never leave a corrupt or partial archive.

Fault enumeration over every seam event / computation step / op boundary /
(sampled) line of three kinds of session: a managed `solve`, an edit session on
an existing archive, a builder session.
"""

import os
import pathlib
import shutil

from .. import archive, cards, seams, simpool, stubphys, values
from ..batch import HarnessError, Scratch
from ..decider import Decider

PROP = "C38"
LEVEL = "fault_enumeration"
NAME = "crash"


EPILOGUE = -3  # trace op id of events after the session on the target has ended


class UserError(Exception):
    """Application exception raised by 'user code' inside the with block."""


# ---------------------------------------------------------------------------
# generation


def gen_ops(d, operator_raw, existing, n_ops, nx):
    """Store operations of an edit/build session."""
    ops = []
    keys = [dict(scale=float(mu) ** 2, nf=int(nf)) for mu, nf in existing]
    uid = 1
    for i in range(n_ops):
        kind = d.weighted("op:kind", [("put", 6), ("get", 2), ("unload", 2), ("update", 1), ("overwrite", 3)])
        if kind == "overwrite" and not keys:
            kind = "put"
        if kind in ("get", "unload") and not keys:
            kind = "put"
        if kind == "put":
            k = dict(scale=round(d.uniform("op:scale", 2.0, 1e4), d.pick("op:sd", [1, 6])), nf=d.pick("op:nf", [3, 4, 5, 6]))
            keys.append(k)
            ops.append(dict(id=i, op="put", key=k, val=dict(uid=uid, p=d.pick("op:p", [2, 14]), x=nx, err=d.chance("op:err", 0.5))))
            uid += 1
        elif kind == "overwrite":
            k = d.pick("op:which", keys)
            ops.append(dict(id=i, op="put", key=k, val=dict(uid=uid, p=d.pick("op:p", [2, 14]), x=nx, err=d.chance("op:err", 0.5))))
            uid += 1
        elif kind == "get":
            ops.append(dict(id=i, op="get", key=d.pick("op:which", keys)))
        elif kind == "unload":
            ops.append(dict(id=i, op="unload", key=d.pick("op:which", keys)))
        else:
            ops.append(dict(id=i, op="update"))
    if d.chance("op:dump", 0.3):
        # an explicit eko.dump() (public API: "dump the current content to archive")
        # as the LAST statement of the block.  Last, so that what it commits is the
        # content the fault-free session ends with: after a completed dump a failed
        # session may legitimately leave either the former or that content.
        ops.append(dict(id=n_ops, op="dump"))
    return ops


def generate(seed, tier, opts):
    slices = int(opts.get("slices", 1))
    wseed, sl = divmod(int(seed), slices)
    d = Decider(wseed, "crash-workload")
    workload = d.weighted("kind", [("solve", 5), ("edit", 4), ("build", 2), ("deepcopy", 1), ("product-inplace", 1), ("product-new", 1)])
    real = d.chance("real", float(opts.get("real_frac", 0.0))) and workload in ("solve", "edit", "build")
    if real:
        # crash consistency does not depend on the physics: keep the real kernels cheap (LO, one target)
        th = cards.gen_theory(d, real=True, order=1)
        op = cards.gen_operator(d, th, real=True, max_targets=1)
        op["configs"]["n_integration_cores"] = d.pick("cores", [1, 2, 3])
    else:
        th, op = cards.gen_cards(d, real=False, max_targets=3)
    nx = len(op["xgrid"])
    ops = []
    if workload == "edit":
        ops = gen_ops(d, op, op["mugrid"], d.between("nops", 1, 6), nx)
    elif workload == "build":
        ops = gen_ops(d, op, [], d.between("nops", 1, 6), nx)
    fin_ops = []
    if workload.startswith("product"):
        for j in range(d.between("nfin", 1, 3)):
            fin_ops.append(dict(id=j, op="put", key=dict(scale=round(d.uniform("fin:scale", 2.0, 1e4), 3), nf=d.pick("fin:nf", [3, 4, 5, 6])), val=dict(uid=900 + j, p=14, x=nx, err=d.chance("fin:err", 0.5), special=False)))
    spec = dict(opts.get("faultspec") or {"mode": "sample", "count": 40})
    spec["slice"] = [sl, slices]
    if real:
        # no line tracer here: sys.settrace would slow the interpreted kernels ~100x
        spec = {"mode": "sample", "count": int(opts.get("real_count", 6)), "slice": [sl, slices], "interrupts": 0}
    return dict(
        seed=int(seed),
        wseed=wseed,
        # environment (not a fault): the temp area lives on another file system
        exdev=d.chance("exdev", 0.3),
        workload=workload,
        physics="real" if real else "stub",
        theory=th,
        operator=op,
        ops=ops,
        fin_ops=fin_ops,
        faultspec=spec,
        pairs=int(opts.get("pairs", 0)),
    )


# ---------------------------------------------------------------------------
# sessions


def apply_op(eko, case, op):
    kind = op["op"]
    if kind == "put":
        eko[values.realize_key(op["key"])] = values.operator_from_spec(case["wseed"], op["val"])
    elif kind == "get":
        try:
            eko[values.realize_key(op["key"])]
        except (ValueError, KeyError):
            pass
    elif kind == "unload":
        del eko[values.realize_key(op["key"])]
    elif kind == "update":
        eko.update()
    elif kind == "dump":
        eko.dump()
        DUMPED[0] = True
    else:
        raise HarnessError(f"unknown op {kind}")


# set by a session whose explicit eko.dump() RETURNED (reset by run_session)
DUMPED = [False]


def session(case, target, trace, user_fault_after=None):
    """The workload itself: real eko code on the (seamed) file system."""
    from eko.io.struct import EKO
    from eko.runner.managed import solve

    th, op = cards.build(case["theory"], case["operator"])
    wl = case["workload"]
    if wl == "solve":
        trace.begin_op(0)
        solve(th, op, target)
        return

    def body(eko):
        for o in case["ops"]:
            trace.begin_op(o["id"])
            if user_fault_after is not None and o["id"] == user_fault_after:
                raise UserError(f"ekosim injected user error before op {o['id']}")
            apply_op(eko, case, o)
        trace.begin_op(-2)
        if user_fault_after == "end":
            raise UserError("ekosim injected user error at end of block")

    trace.begin_op(-1)
    outdir = target.parent
    if wl == "deepcopy":
        with EKO.read(outdir / "src.tar") as src:
            trace.begin_op(0)
            src.deepcopy(target)
            # the session on the target is over; what follows only releases the
            # read-only source (faults there are not faults of this session)
            trace.begin_op(EPILOGUE)
        return
    if wl in ("product-inplace", "product-new"):
        from ekobox.utils import ekos_product

        if wl == "product-inplace":
            with EKO.edit(target) as ini:
                with EKO.read(outdir / "fin.tar") as fin:
                    trace.begin_op(0)
                    ekos_product(ini, fin)
                    trace.begin_op(-2)
        else:
            with EKO.read(outdir / "ini.tar") as ini:
                with EKO.read(outdir / "fin.tar") as fin:
                    trace.begin_op(0)
                    ekos_product(ini, fin, path=target)
                    trace.begin_op(EPILOGUE)
        return
    if wl == "edit":
        with EKO.edit(target) as eko:
            body(eko)
    elif wl == "build":
        with EKO.create(target) as builder:
            eko = builder.load_cards(th, op).build()
            body(eko)
    else:
        raise HarnessError(f"unknown workload {wl}")


class PhysicsPatch:
    def __init__(self, case, fail_at=None, fail_exc="FloatingPointError"):
        import eko.runner.parts as P

        self.P = P
        self.saved = (P.evolve, P.match)
        if case["physics"] == "stub":
            self.phys = stubphys.StubPhysics(fail_at=fail_at, fail_exc=fail_exc)
        else:
            self.phys = stubphys.CountingPhysics(P.evolve, P.match, fail_at=fail_at, fail_exc=fail_exc)

    def __enter__(self):
        self.P.evolve = self.phys.evolve
        self.P.match = self.phys.match
        return self.phys

    def __exit__(self, *a):
        self.P.evolve, self.P.match = self.saved
        return False


def traced_prefixes():
    import tarfile as _t

    from .. import env

    src = os.path.join(env.repo_root(), "src", "eko")
    return [
        os.path.join(src, "io") + os.sep,
        os.path.join(src, "runner") + os.sep,
        _t.__file__,
        shutil.__file__,
        pathlib.__file__,
    ]


def run_session(case, root, fault=None, ns="run", count_lines=False):
    """One session under seams with at most one injected fault.

    Returns dict(raised, trace, fired, phys_calls, lines).
    """
    target = pathlib.Path(root) / "out" / "result.tar"
    fs_faults = []
    fail_at = None
    fail_exc = "FloatingPointError"
    user_after = None
    interrupt_k = None
    worker_fault = None
    if fault is not None:
        t = fault["type"]
        if t == "fs":
            fs_faults = [fault] + list(fault.get("also", []))
        elif t == "compute":
            fail_at = fault["k"]
            fail_exc = fault.get("exc", "FloatingPointError")
        elif t == "user":
            user_after = fault["after"]
        elif t == "interrupt":
            interrupt_k = fault["k"]
        elif t == "worker":
            worker_fault = dict(item=fault["k"], exc=fault.get("exc", "MemoryError"))
        else:
            raise HarnessError(f"unknown fault type {t}")
    DUMPED[0] = False
    d = Decider(case["wseed"], "fs:" + ns)
    tr = seams.Trace()
    sm = seams.Seams(root, d, trace=tr, plan=seams.FaultPlan(fs_faults), trace_reads=True, cpu_count=4, exdev_between=("tmp", "out") if case.get("exdev") else None)
    raised = None
    li = None
    pool_log = []
    with PhysicsPatch(case, fail_at, fail_exc) as phys, simpool.PoolPatch(Decider(case["wseed"], "pool:" + ns), log=pool_log, fault=worker_fault):
        with sm:
            try:
                if interrupt_k is not None or count_lines:
                    li = seams.LineInterrupter(traced_prefixes(), k=interrupt_k)
                    with li:
                        session(case, target, tr, user_after)
                else:
                    session(case, target, tr, user_after)
            except BaseException as e:  # noqa: the simulated process dies here
                if isinstance(e, HarnessError):
                    raise
                raised = e
            # The session is over and its objects are garbage: drop the frames the
            # exception keeps alive and collect NOW (faults off, seams still on), so
            # that finalizers run at a defined instant instead of during a later run.
            if raised is not None:
                try:
                    raised.__traceback__ = None
                    raised.__context__ = None
                    raised.__cause__ = None
                except Exception:
                    pass
            sm.fs_faults_enabled = False
            tr.begin_op(EPILOGUE)
            import gc

            gc.collect()
    worker_fired = worker_fault is not None and getattr(raised, "ekosim_injected", False)
    fired = bool(sm.faults_fired) or phys.fired or (li is not None and li.fired) or isinstance(raised, UserError) or worker_fired or (worker_fault is not None and bool(pool_log))
    return dict(
        raised=raised,
        trace=tr,
        fired=fired,
        fs_fired=sm.faults_fired,
        phys_calls=len(phys.calls),
        lines=li.count if li is not None else None,
        where=li.where if li is not None else None,
        exdev_hits=sm.exdev_hits,
        pool_runs=len(pool_log),
        dumped=DUMPED[0],
    )


# ---------------------------------------------------------------------------
# fault enumeration


def site_class(ev):
    """(kind, path class) of a trace event."""
    _, _, _, kind, rel, _ = ev
    rel = str(rel)
    if rel.startswith("out/result.tar") and rel != "out/result.tar":
        pc = "target-sibling"
    elif rel == "out/result.tar":
        pc = "target"
    elif rel.startswith("out"):
        pc = "target-dir"
    elif "/operators" in rel:
        pc = "work/operators"
    elif "/parts" in rel:
        pc = "work/parts"
    elif "/recipes" in rel:
        pc = "work/recipes"
    elif rel.endswith(".yaml"):
        pc = "work/cards"
    elif rel.startswith("tmp"):
        pc = "work/root"
    else:
        pc = "other"
    return f"{kind}@{pc}"


def fs_fault_for(d, ev, variant=None):
    n, op, local, kind, rel, detail = ev
    kinds = ["oserror"]
    if kind == "write" and isinstance(detail, int) and detail > 1:
        kinds.append("short-write")
    if kind == "close_w":
        kinds.append("close-error")
    k = variant if variant in kinds else d.pick("fault:kind", kinds)
    f = dict(type="fs", op=op, local=local, kind=k, site=site_class(ev))
    if k == "oserror":
        if kind in ("open_r", "read", "stat", "listdir", "scandir", "os_open", "readlink"):
            f["errno"] = d.pick("fault:errno_r", [5, 13, 24])  # EIO EACCES EMFILE
        else:
            f["errno"] = d.pick("fault:errno_w", seams.FAULT_ERRNOS)
    elif k == "short-write":
        f["frac"] = round(d.uniform("fault:frac", 0.0, 1.0), 3)
    else:
        f["errno"] = 5
    return f


def is_mutating(kind):
    return kind in (
        "open_w",
        "write",
        "close_w",
        "mkdir",
        "unlink",
        "rmdir",
        "rename",
        "utime",
        "chmod",
        "chown",
        "truncate",
        "link",
        "symlink",
        "sendfile",
    )


def enumerate_faults(case, ref, d):
    """All single faults of a workload, from the fault-free reference run."""
    spec = case["faultspec"]
    if spec.get("mode") == "explicit":
        return list(spec["faults"])
    events = ref["trace"].events
    allf = []
    both = spec.get("mode") == "all"
    for ev in events:
        kind = ev[3]
        if ev[1] == EPILOGUE:
            continue
        if both:
            # every applicable fault kind at every site
            allf.append(fs_fault_for(d, ev, "oserror"))
            if kind == "write" and isinstance(ev[5], int) and ev[5] > 1:
                allf.append(fs_fault_for(d, ev, "short-write"))
            if kind == "close_w":
                allf.append(fs_fault_for(d, ev, "close-error"))
        else:
            allf.append(fs_fault_for(d, ev))
    for k in range(ref["phys_calls"]):
        allf.append(dict(type="compute", k=k, exc=d.pick("fault:exc", ["FloatingPointError", "MemoryError", "ValueError"]), site="compute"))
    if ref.get("pool_runs"):
        # a transient fault inside a pool worker (item k of every integration)
        for k in range(len(case["operator"]["xgrid"])):
            allf.append(dict(type="worker", k=k, exc=d.pick("fault:wexc", ["MemoryError", "OSError", "FloatingPointError"]), site="worker"))
    if case["workload"] != "solve":
        for o in case["ops"]:
            allf.append(dict(type="user", after=o["id"], site="user"))
        allf.append(dict(type="user", after="end", site="user"))
    # hard kills (SIGKILL / power button): at a seam event the process dies, no handler
    # or finalizer touches the disk afterwards; sampled, the commit phase over-weighted
    n_kill = int(spec.get("kills", 0))
    if n_kill and events:
        evs = [ev for ev in events if ev[1] != EPILOGUE]
        tgt = [ev for ev in evs if "result.tar" in str(ev[4])]
        picks = [d.pick("fault:kill", evs) for _ in range(n_kill)] + [d.pick("fault:killtarget", tgt) for _ in range(n_kill) if tgt]
        seen_k = set()
        for ev in picks:
            if (ev[1], ev[2]) in seen_k:
                continue
            seen_k.add((ev[1], ev[2]))
            allf.append(dict(type="fs", op=ev[1], local=ev[2], kind="kill", site="kill@" + site_class(ev).split("@")[1]))
    # interrupts: sampled lines (count known from the counting run)
    nlines = ref.get("lines") or 0
    n_int = int(spec.get("interrupts", 0))
    if nlines and n_int:
        ks = sorted(set(d.between("fault:line", 1, nlines) for _ in range(n_int)))
        # over-weight the tail, where close() commits
        ks += sorted(set(d.between("fault:linetail", max(1, nlines - 400), nlines) for _ in range(n_int)))
        for k in sorted(set(ks)):
            allf.append(dict(type="interrupt", k=k, site="interrupt"))
    if spec.get("mode") == "all":
        chosen = allf
    else:
        count = int(spec.get("count", 40))
        # stratified: every site class at least once, commit phase over-weighted
        byclass = {}
        for f in allf:
            byclass.setdefault(f["site"], []).append(f)
        chosen = []
        classes = sorted(byclass)
        if len(classes) > count:
            # not enough budget for every class: a seeded subset, target-related ones first
            pri = [c for c in classes if "target" in c or c in ("compute", "user", "interrupt", "worker") or c.startswith("kill@")]
            rest_c = d.shuffle("strat:classes", [c for c in classes if c not in pri])
            classes = (d.shuffle("strat:pri", pri) + rest_c)[:count]
        for cls in classes:
            chosen.append(d.pick("strat:" + cls, byclass[cls]))
        rest = [f for f in allf if f not in chosen]
        weights = []
        for f in rest:
            w = 1.0
            if "target" in f["site"]:
                w = 6.0
            if f["type"] != "fs":
                w = 3.0
            weights.append(w)
        while len(chosen) < count and rest:
            tot = sum(weights)
            x = d.uniform("strat:pick") * tot
            acc = 0.0
            for i, w in enumerate(weights):
                acc += w
                if x < acc:
                    break
            chosen.append(rest.pop(i))
            weights.pop(i)
    sl, n = spec.get("slice", [0, 1])
    out = [f for i, f in enumerate(chosen) if i % n == sl]
    # faults inside pool workers are few and only exist for multi-core real-physics
    # workloads: always try every one of them (in the first slice of the workload)
    if sl == 0:
        out += [f for f in allf if f["type"] == "worker" and f not in out]
    return out


# ---------------------------------------------------------------------------
# the run


def _reset(root, pre_files):
    for sub in ("out", "tmp"):
        p = os.path.join(root, sub)
        shutil.rmtree(p, ignore_errors=True)
        os.makedirs(p)
    for name, data in (pre_files or {}).items():
        with open(os.path.join(root, "out", name), "wb") as f:
            f.write(data)


def _state(root):
    return archive.logical_or_state(os.path.join(root, "out", "result.tar"), os.path.exists)


def _leaks(root):
    out = sorted(os.listdir(os.path.join(root, "out")))
    tmp = sorted(os.listdir(os.path.join(root, "tmp")))
    return [n for n in out if n not in ("result.tar", "src.tar", "ini.tar", "fin.tar")], tmp


def _describe(st):
    if st[0] == "ok":
        return f"complete archive with {len(st[1]) - 1} members"
    return " ".join(str(x) for x in st)


def _snapshot(root):
    snap = os.path.join(root, "snap")
    shutil.rmtree(snap, ignore_errors=True)
    os.makedirs(snap)
    for sub in ("out", "tmp"):
        shutil.copytree(os.path.join(root, sub), os.path.join(snap, sub), symlinks=True)
    return snap


def _restore(root, snap):
    for sub in ("out", "tmp"):
        shutil.rmtree(os.path.join(root, sub), ignore_errors=True)
        shutil.copytree(os.path.join(snap, sub), os.path.join(root, sub), symlinks=True)


def judge_failure(case, fault, r, pre, post, ref_new, stats, stage=""):
    """Verdict on the target path right after a (possibly) failed session.

    Returns (violation|None, committed: bool).
    """
    fkey = f"{case['workload']}:{fault['site']}:{fault.get('kind', fault['type'])}{stage}"
    if r["raised"] is not None:
        if post[0] == "corrupt":
            return (
                dict(cls="corrupt-after-failure", key=fkey, fault=fault, msg=f"session failed with {r['raised']!r} and left a corrupt archive at the target: {post[1]} (before: {_describe(pre)})"),
                False,
            )
        if post != pre:
            if (fault["type"] == "interrupt" or fault.get("kind") == "kill") and post == ref_new:
                # the interrupt arrived after the commit point: the run effectively completed
                stats["committed_interrupts"] += 1
                return None, True
            if r.get("dumped") and post == ref_new:
                # the session itself committed with an explicit dump() that returned
                # (the last statement of the block) and failed afterwards
                stats["committed_by_dump"] += 1
                return None, True
            return (
                dict(cls="changed-after-failure", key=fkey, fault=fault, msg=f"session failed with {r['raised']!r}; target before: {_describe(pre)}; after: {_describe(post)}" + (" (= the complete NEW content)" if post == ref_new else "")),
                False,
            )
        return None, False
    stats["absorbed"] += 1
    if post != ref_new:
        return (
            dict(cls="absorbed-fault-wrong-result", key=fkey, fault=fault, msg=f"session swallowed the fault and left {_describe(post)} instead of the fault-free result"),
            True,
        )
    return None, True


def execute(case):
    import hashlib

    viol = []
    stats = dict(faulted_runs=0, fired={}, site_classes={}, absorbed=0, unfired=0, retries=0, leaks_tmp=0, leaks_sibling=0, pair_runs=0, committed_interrupts=0, committed_by_dump=0, sim_events=0, exdev_env=1 if case.get("exdev") else 0, exdev_hits=0)
    samples = []
    sigs = set()
    with Scratch("crash") as root:
        d = Decider(case["seed"], "crash-exec")
        # --- pre-existing archives (fault-free sessions under the seams)
        pre_files = {}
        accept_after_failure = []
        _reset(root, None)
        wl = case["workload"]

        def make(sub, name):
            _reset(root, None)
            r0 = run_session(sub, root, None, ns="pre-" + name)
            if r0["raised"] is not None:
                return repr(r0["raised"])
            pre_files[name] = open(os.path.join(root, "out", "result.tar"), "rb").read()
            return None

        if wl in ("edit", "deepcopy", "product-inplace", "product-new"):
            first = {"edit": "result.tar", "deepcopy": "src.tar", "product-inplace": "result.tar", "product-new": "ini.tar"}[wl]
            err = make(dict(case, workload="solve"), first)
            if err is None and wl.startswith("product"):
                t0 = case["operator"]["mugrid"][0]
                fin_op = dict(case["operator"])
                fin_op["init"] = [t0[0], t0[1]]
                err = make(dict(case, workload="build", operator=fin_op, ops=case["fin_ops"]), "fin.tar")
            if err is not None:
                return dict(violations=[], trivial=True, refused=err, stats=stats, digest="refused")
            if wl == "product-new":
                # ekos_product(path=...) is two sessions: a deep copy of the initial EKO
                # (complete archive at the new path), then an edit session on it
                _reset(root, {"result.tar": pre_files["ini.tar"]})
                accept_after_failure.append(_state(root))
        pre_bytes = pre_files
        # --- reference run
        _reset(root, pre_bytes)
        pre = _state(root)
        spec = case["faultspec"]
        need_lines = bool(spec.get("interrupts")) or any(f.get("type") == "interrupt" for f in spec.get("faults", []))
        ref = run_session(case, root, None, count_lines=need_lines)
        if ref["raised"] is not None:
            # the generator produced a session eko refuses even without faults
            return dict(violations=[], trivial=True, refused=repr(ref["raised"]), stats=stats, digest="refused")
        ref_new = _state(root)
        if ref_new[0] != "ok":
            viol.append(dict(cls="fault-free-run-corrupt", key=case["workload"], msg=f"fault-free session left {ref_new[:2]}"))
            return dict(violations=viol, stats=stats, digest=ref["trace"].digest())
        ref_events = ref["trace"].events
        stats["sim_events"] += len(ref_events)
        stats["exdev_hits"] += ref.get("exdev_hits", 0)
        faults = enumerate_faults(case, ref, d)
        digest_parts = [ref["trace"].digest()]
        prev_fault = None
        for fault in faults:
            _reset(root, pre_bytes)
            r = run_session(case, root, fault)
            stats["faulted_runs"] += 1
            stats["sim_events"] += r["trace"].n
            stats["site_classes"][fault["site"]] = stats["site_classes"].get(fault["site"], 0) + 1
            # determinism of the simulator: identical prefix up to the fault
            if fault["type"] == "fs":
                k = next((i for i, ev in enumerate(ref_events) if (ev[1], ev[2]) == (fault["op"], fault["local"])), None)
                if k is not None and r["trace"].events[:k] != ref_events[:k]:
                    # Same seed, same session, yet a different trace before the fault
                    # fired: either the simulator is not deterministic (my bug), or an
                    # earlier session of this case left state behind in the process.
                    # Decide by running the fault-free session right here.
                    _reset(root, pre_bytes)
                    probe = run_session(case, root, None)
                    post_p = _state(root)
                    if probe["raised"] is not None or post_p != ref_new:
                        viol.append(dict(cls="retry-failed", key=f"{case['workload']}:state-left-behind", fault=prev_fault, msg=f"after an earlier failed session in the same process a fault-free run on the same path {'raised ' + repr(probe['raised']) if probe['raised'] is not None else 'produced a different archive'} (state left behind by the failed session)"))
                        break
                    raise HarnessError("faulted run diverged from the reference before the fault site, but a fault-free run still reproduces the reference")
            prev_fault = fault
            post = _state(root)
            kind_name = fault.get("kind", fault["type"])
            digest_parts.append(f"{fault['site']}|{kind_name}|{r['trace'].digest()}|{post[0]}|{type(r['raised']).__name__}")
            if not r["fired"]:
                stats["unfired"] += 1
                continue
            stats["fired"][kind_name] = stats["fired"].get(kind_name, 0) + 1
            sigs.add((case["workload"], fault["site"], kind_name, type(r["raised"]).__name__, post[0]))
            sib, tmpl = _leaks(root)
            stats["leaks_sibling"] += 1 if sib else 0
            stats["leaks_tmp"] += 1 if tmpl else 0
            if len(samples) < 3:
                samples.append(dict(workload=case["workload"], physics=case["physics"], fault=fault, raised=repr(r["raised"])[:120], target_after=post[0], events_before_fault=r["trace"].n, n_ops=len(case["ops"])))
            v, committed = judge_failure(case, fault, r, pre, post, ref_new, stats)
            if v is not None and v["cls"] == "changed-after-failure" and post in accept_after_failure:
                v = None
            if v is not None:
                viol.append(v)
                continue
            # --- a second fault in the SAME session, on an event that only exists
            # because of the first one (error handling, fallbacks, clean-up code)
            if fault["type"] == "fs" and fault.get("kind") != "kill" and not fault.get("also") and r["fs_fired"]:
                tp = float(spec.get("tail_prob", 0.0))
                if "target" in fault["site"]:
                    tp = min(1.0, tp * 4)
                k0 = r["fs_fired"][0]["at_n"]
                tail = [ev for ev in r["trace"].events[k0 + 1 :] if ev[1] != EPILOGUE]
                # events of the tail that the fault-free run does not have at that address
                refaddr = {(ev[1], ev[2]): ev[3:5] for ev in ref_events}
                tail = [ev for ev in tail if refaddr.get((ev[1], ev[2])) != ev[3:5]]
                ntail = int(spec.get("tail_max", 1))
                if tail and tp > 0 and d.chance("tail", tp):
                    picks = d.sample("tail:site", tail, min(ntail, len(tail)))
                    stop = False
                    for ev2 in picks:
                        f2 = fs_fault_for(d, ev2)
                        both = dict(fault)
                        both["also"] = [f2]
                        both["site"] = fault["site"] + "+" + f2["site"]
                        _reset(root, pre_bytes)
                        r2 = run_session(case, root, both)
                        stats["tail_runs"] = stats.get("tail_runs", 0) + 1
                        stats["sim_events"] += r2["trace"].n
                        if len(r2["fs_fired"]) < 2:
                            stats["unfired"] += 1
                            continue
                        k2 = f2.get("kind", "oserror")
                        stats["fired"][k2] = stats["fired"].get(k2, 0) + 1
                        stats["fired"]["(second fault in the error path)"] = stats["fired"].get("(second fault in the error path)", 0) + 1
                        post2 = _state(root)
                        sigs.add((case["workload"], both["site"], k2, type(r2["raised"]).__name__, post2[0]))
                        digest_parts.append(f"tail|{both['site']}|{r2['trace'].digest()}|{post2[0]}")
                        v2, committed2 = judge_failure(case, both, r2, pre, post2, ref_new, stats)
                        if v2 is not None and v2["cls"] == "changed-after-failure" and post2 in accept_after_failure:
                            v2 = None
                        if v2 is not None:
                            viol.append(v2)
                            continue
                        if committed2:
                            continue
                        rr2 = run_session(case, root, None, ns="clean")
                        stats["retries"] += 1
                        post3 = _state(root)
                        if rr2["raised"] is not None:
                            viol.append(dict(cls="retry-failed", key=f"{case['workload']}:{both['site']}", fault=both, msg=f"after a session that failed with two faults ({r2['raised']!r}) a clean re-run on the same path raised {rr2['raised']!r}"))
                            stop = True
                            break
                        elif post3 != ref_new:
                            viol.append(dict(cls="retry-wrong-result", key=f"{case['workload']}:{both['site']}", fault=both, msg=f"clean re-run after a two-fault failure produced {_describe(post3)}, different from the fault-free result"))
                    if stop:
                        break
                    # restore the state left by the single-fault run for what follows
                    _reset(root, pre_bytes)
                    r = run_session(case, root, fault)
            if committed:
                continue
            # --- a second fault during the retry (pairs), then the clean run
            fault2 = fault.get("then")
            if fault2 is None and case.get("pairs") and d.chance("pair", 0.5):
                snap = _snapshot(root)
                probe = run_session(case, root, None, ns="retry")
                _restore(root, snap)
                shutil.rmtree(snap, ignore_errors=True)
                cands = [ev for ev in probe["trace"].events if ev[1] != EPILOGUE]
                if probe["raised"] is None and cands:
                    ev = d.pick("pair:site", cands)
                    fault2 = fs_fault_for(d, ev)
            if fault2 is not None:
                r2 = run_session(case, root, fault2, ns="retry")
                stats["pair_runs"] += 1
                stats["sim_events"] += r2["trace"].n
                post_b = _state(root)
                digest_parts.append(f"pair|{fault2['site']}|{r2['trace'].digest()}|{post_b[0]}")
                if r2["fired"]:
                    k2 = fault2.get("kind", fault2["type"])
                    stats["fired"][k2] = stats["fired"].get(k2, 0) + 1
                    both = dict(fault)
                    both["then"] = fault2
                    v, committed = judge_failure(case, both, r2, pre, post_b, ref_new, stats, stage="+retry:" + fault2["site"])
                    if v is not None and v["cls"] == "changed-after-failure" and post_b in accept_after_failure:
                        v = None
                    if v is not None:
                        viol.append(v)
                        continue
                    if committed:
                        continue
                    fault = both
                elif r2["raised"] is None:
                    continue
            # --- bounded liveness: one clean re-run on the same path succeeds
            rr = run_session(case, root, None, ns="clean")
            stats["retries"] += 1
            stats["sim_events"] += rr["trace"].n
            post2 = _state(root)
            fkey = f"{case['workload']}:{fault['site']}:{fault.get('kind', fault['type'])}"
            if rr["raised"] is not None:
                viol.append(dict(cls="retry-failed", key=fkey, fault=fault, msg=f"after a failed session ({r['raised']!r}) a clean re-run on the same path raised {rr['raised']!r}"))
                # whatever made the clean run fail may still be around (state kept in
                # the process, files left behind): later faults of this workload would
                # only report its consequences
                break
            if post2 != ref_new:
                viol.append(dict(cls="retry-wrong-result", key=fkey, fault=fault, msg=f"clean re-run after failure produced {_describe(post2)}, different from the fault-free result"))
                continue
        digest = hashlib.sha256("\n".join(digest_parts).encode()).hexdigest()
    return dict(
        violations=viol,
        stats=stats,
        digest=digest,
        events=len(ref_events),
        phys_calls=ref["phys_calls"],
        lines=ref.get("lines"),
        sigs=sorted(sigs),
        samples=samples,
        workload=case["workload"],
        physics=case["physics"],
    )


def focus(case, v):
    """Narrow a case to the single fault of one violation."""
    c = dict(case)
    if "fault" in v:
        c["faultspec"] = {"mode": "explicit", "faults": [v["fault"]]}
        c["pairs"] = 0
    return c


def shrink(case, res, still, ddmin):
    """Minimise the session (targets, operations) around the failing fault."""
    c = focus(case, res["violations"][0])
    if not still(c):
        return case
    # fewer targets
    op = dict(c["operator"])
    while len(op["mugrid"]) > 1:
        t = dict(c)
        o2 = dict(op)
        o2["mugrid"] = op["mugrid"][:-1]
        t["operator"] = o2
        if still(t):
            c, op = t, o2
        else:
            break
    if len(c["ops"]) > 1:

        def fails(sub):
            t = dict(c)
            t["ops"] = sub
            return still(t)

        c = dict(c)
        c["ops"] = ddmin(c["ops"], fails)
    return c


ASSUMPTIONS = [
    "faults arrive at seam boundaries (every traced file-system call, write/close of a file object, computation step, op boundary) and at sampled Python lines; never inside a C call",
    "no power-loss model: a crash is an exception/interrupt, afterwards only what is on disk matters (eko never calls fsync; the property does not speak about power loss)",
    "stub physics (deterministic pseudo-random parts) replaces the Mellin integrations in most workloads; a sample runs the real interpreted kernels",
    "the oracle reads archives with an independent reader (tarfile + yaml.safe_load + lz4 + numpy), not with eko",
]


def summarize(results, tier):
    from ..batch import merge_counts

    fired, sites, sigs = {}, {}, set()
    tot = dict(faulted_runs=0, absorbed=0, unfired=0, retries=0, leaks_tmp=0, leaks_sibling=0, pair_runs=0, committed_interrupts=0, committed_by_dump=0, sim_events=0, exdev_env=0, exdev_hits=0, tail_runs=0)
    samples = []
    wl = {}
    phys = {}
    refused = 0
    events = 0
    for r in results:
        st = r.get("stats") or {}
        if r.get("refused"):
            refused += 1
            continue
        for k in tot:
            tot[k] += st.get(k, 0)
        merge_counts(fired, st.get("fired"))
        merge_counts(sites, st.get("site_classes"))
        for s in r.get("sigs", []):
            sigs.add(tuple(s))
        if len(samples) < 6:
            samples.extend(r.get("samples", [])[:1])
        wl[r.get("workload")] = wl.get(r.get("workload"), 0) + 1
        phys[r.get("physics")] = phys.get(r.get("physics"), 0) + 1
        events += r.get("events", 0)
    return dict(
        evaluations=tot["faulted_runs"] + tot["pair_runs"] + tot["tail_runs"],
        second_faults_in_error_paths=tot["tail_runs"],
        distinct_nontrivial=len(sigs),
        rule=(
            "one evaluation = one session (solve / edit / build) executed with one injected fault (plus, in pairs mode, a second fault during the re-run), "
            "followed by the oracle on the target path and a clean re-run; faults are enumerated from the fault-free reference trace of each seeded workload "
            "(quick: stratified sample over site classes with the commit phase over-weighted; thorough: every seam event x every applicable fault kind, every computation step, every op boundary, sampled lines). "
            "distinct_nontrivial = number of distinct (workload, site class, fault kind, exception type, target state) signatures among runs in which the fault actually fired."
        ),
        samples=samples or [dict(note="no fault fired")],
        workloads=wl,
        physics=phys,
        refused_workloads=refused,
        faults_fired=fired,
        fault_site_classes=sites,
        faults_unfired=tot["unfired"],
        faults_absorbed=tot["absorbed"],
        clean_reruns=tot["retries"],
        pair_runs=tot["pair_runs"],
        committed_interrupts=tot["committed_interrupts"],
        failures_after_a_completed_explicit_dump=tot["committed_by_dump"],
        probes=dict(runs_leaking_temp_dirs=tot["leaks_tmp"], runs_leaking_target_siblings=tot["leaks_sibling"], workloads_with_cross_device_temp_area=tot["exdev_env"], cross_device_renames_refused=tot["exdev_hits"]),
        sim_events=tot["sim_events"],
        reference_trace_events=events,
        components=dict(
            real=["eko.io.* (store, inventories, items, metadata, tar)", "eko.runner.* (solve, recipes, retrieve/join)", "kernel file system in a scratch directory (behind the FS seam)"],
            stub=["physics of a part (stub tensor) unless physics=real", "clock, temp names, cpu count (simulated)"],
        ),
    )
