"""C24 — the harmonic-sum cache: any lookup order, definitions, recurrences.

System: several caches, each bound to one (N, parity flag); a run owns caches at
N, N+1 (opposite parity) and conj(N) for a few N.  A seeded history of
`get(key, cache)` lookups (all 31 keys, repeats, any order, interleaved between
the caches) is executed; oracles over the recorded history:
 (a) order independence: every returned value equals the value from a fresh
     single-lookup cache;
 (b) at integer N with the matching parity flag the value equals the exact
     rational nested sum / defining integral;
 (c) the one-step recurrences between the caches at N and N+1, and conjugation
     between N and conj(N), as cross-invariants between lookups of DIFFERENT caches;
 (d) slot audit: after the history every non-NaN slot of every cache equals the
     value a fresh cache gives for that slot (catches "lookup of A stores a wrong
     value in the slot of B", which only a later lookup in another order would read).
"""

import hashlib
import json
import os

import numpy as np

from ..batch import HarnessError
from ..decider import Decider
from ..models import harmonic_defs as hd

NAME = "hcache"

_TOL = None


def tol():
    global _TOL
    if _TOL is None:
        _TOL = json.load(open(os.path.join(os.path.dirname(hd.__file__), "harmonic_tol.json")))
    return _TOL


def generate(seed, tier, opts):
    d = Decider(seed, "hcache")
    nbase = d.pick("nbase", [1, 1, 2, 3])
    bases = []
    for _ in range(nbase):
        kind = d.weighted("nkind", [("int", 4), ("complex", 5), ("lowre", 2), ("highim", 2), ("real", 1)])
        if kind == "int":
            n = d.between("nint", 1, 60)
            N = [float(n), 0.0]
            flag = n % 2 == 0
        else:
            if kind == "complex":
                N = [d.uniform("re", 0.5, 50.0), d.uniform("im", -60.0, 60.0)]
            elif kind == "lowre":
                N = [d.uniform("re", 0.5, 3.0), d.uniform("im", -60.0, 60.0)]
            elif kind == "highim":
                N = [d.uniform("re", 0.5, 50.0), d.pick("sign", [-1, 1]) * d.uniform("im", 14.0, 60.0)]
            else:
                N = [d.uniform("re", 0.5, 50.0), 0.0]
            flag = d.chance("flag", 0.5)
        bases.append(dict(N=N, flag=flag))
    ncaches = 3 * nbase
    style = d.weighted("style", [("random", 5), ("full-perm", 3), ("reverse", 1), ("short", 3)])
    ops = []
    if style == "short":
        for _ in range(d.between("nshort", 1, 6)):
            ops.append([d.below("cache", ncaches), d.pick("key", hd.KEYS)])
    elif style == "random":
        for _ in range(d.between("nrand", 8, 70)):
            ops.append([d.below("cache", ncaches), d.pick("key", hd.KEYS)])
    else:
        for c in d.shuffle("corder", list(range(ncaches))):
            keys = list(reversed(hd.KEYS)) if style == "reverse" else d.shuffle("korder", hd.KEYS)
            for k in keys:
                ops.append([c, k])
        if d.chance("interleave", 0.5):
            ops = d.shuffle("interleave-order", ops)
    return dict(seed=int(seed), bases=bases, ops=[dict(id=i, c=c, k=k) for i, (c, k) in enumerate(ops)])


def caches_of(case):
    """(N, flag, role, base index) for every cache of the run."""
    out = []
    for i, b in enumerate(case["bases"]):
        N = complex(b["N"][0], b["N"][1])
        out.append((N, b["flag"], "base", i))
        out.append((N + 1.0, not b["flag"], "up", i))
        out.append((N.conjugate(), b["flag"], "conj", i))
    return out


def close(a, b, rel):
    if np.isnan(a) or np.isnan(b):
        return False
    return abs(a - b) <= rel * max(1.0, abs(a), abs(b))


def execute(case):
    from ekore.harmonics import cache as hc

    if hc.CACHE_SIZE != len(hd.KEYS) or any(getattr(hc, k) != i for k, i in hd.IDX.items()):
        raise HarnessError("cache key layout changed; update ekosim/models/harmonic_defs.py")
    T = tol()
    cs = caches_of(case)
    arrays = [hc.reset() for _ in cs]
    got = [dict() for _ in cs]  # values returned per cache (last)
    viol = []
    fresh_memo = {}
    h = hashlib.sha256()
    n_lookups = 0
    hits = 0

    def fresh(ci, key):
        if (ci, key) not in fresh_memo:
            N, flag, _, _ = cs[ci]
            fresh_memo[(ci, key)] = complex(hc.get(hd.IDX[key], hc.reset(), N, flag))
        return fresh_memo[(ci, key)]

    for op in case["ops"]:
        ci, key = op["c"], op["k"]
        if ci >= len(cs):
            continue
        N, flag, role, bi = cs[ci]
        was_nan = bool(np.isnan(arrays[ci][hd.IDX[key]]))
        try:
            v = complex(hc.get(hd.IDX[key], arrays[ci], N, flag))
        except Exception as e:
            viol.append(dict(cls="lookup-raised", key="lookup-raised", msg=f"get({key}) at N={N}, is_singlet={flag} raised {e!r}", op=op["id"]))
            break
        n_lookups += 1
        hits += 0 if was_nan else 1
        h.update(repr((ci, key, v)).encode())
        if np.isnan(v):
            viol.append(dict(cls="lookup-returned-nan", key=f"lookup-returned-nan:{key}", msg=f"get({key}) at N={N}, is_singlet={flag} returned NaN after lookups {[o['k'] for o in case['ops'] if o['id'] < op['id'] and o['c'] == ci][-8:]} on the same cache", op=op["id"]))
            break
        ref = fresh(ci, key)
        if not close(v, ref, 1e-12):
            prior = [o["k"] for o in case["ops"] if o["id"] < op["id"] and o["c"] == ci]
            viol.append(dict(cls="order-dependent-value", key=f"order-dependent-value:{key}", msg=f"get({key}) at N={N}, is_singlet={flag} returned {v!r} after lookups {prior[-8:]} on the same cache; a fresh cache returns {ref!r}", op=op["id"]))
            break
        got[ci][key] = v
        # (b) definitions at integer N with the matching parity flag
        if N.imag == 0.0 and float(N.real).is_integer() and 1 <= N.real <= 61 and flag == (int(N.real) % 2 == 0):
            ref = hd.definition(key, int(N.real))
            if not close(v, ref, T["definition"][key]):
                viol.append(dict(cls="differs-from-definition", key=f"differs-from-definition:{key}", msg=f"{key}(N={int(N.real)}) = {v!r}, the defining finite sum gives {ref!r} (tolerance {T['definition'][key]:.1e} relative)", op=op["id"]))
                break
    # (d) slot audit
    if not viol:
        for ci, arr in enumerate(arrays):
            for key in hd.KEYS:
                s = complex(arr[hd.IDX[key]])
                if np.isnan(s):
                    continue
                ref = fresh(ci, key)
                if not close(s, ref, 1e-12):
                    N, flag, _, _ = cs[ci]
                    looked = [o["k"] for o in case["ops"] if o["c"] == ci]
                    viol.append(dict(cls="poisoned-slot", key=f"poisoned-slot:{key}", msg=f"after lookups {looked[-10:]} the slot of {key} (N={N}, is_singlet={flag}) holds {s!r}; direct evaluation gives {ref!r}"))
                    break
            if viol:
                break
    # (c) cross-cache invariants: recurrences N -> N+1 and conjugation
    n_rec = n_conj = 0
    if not viol:
        for bi, b in enumerate(case["bases"]):
            lo, hi, cj = got[3 * bi], got[3 * bi + 1], got[3 * bi + 2]
            N = complex(b["N"][0], b["N"][1])
            eta_next = -1.0 if b["flag"] else 1.0
            for name, res, scale in hd.recurrence_residuals(N, eta_next, lo, hi):
                n_rec += 1
                t = T["recurrence"].get(name, 1e-11)
                if not (abs(res) <= t * scale):
                    viol.append(dict(cls="recurrence-violated", key=f"recurrence-violated:{name}", msg=f"one-step recurrence of {name} between the caches at N={N} (is_singlet={b['flag']}) and N+1 is off by {abs(res):.3e} (tolerance {t:.1e} x {scale:.3g})"))
                    break
            if viol:
                break
            for key in lo:
                if key in cj:
                    n_conj += 1
                    if not close(cj[key], lo[key].conjugate(), T["conjugation"]):
                        viol.append(dict(cls="not-real-analytic", key=f"not-real-analytic:{key}", msg=f"{key}(conj N) = {cj[key]!r} but conj({key}(N)) = {lo[key].conjugate()!r} at N={N}"))
                        break
            if viol:
                break
    ints = sum(1 for b in case["bases"] if b["N"][1] == 0.0 and float(b["N"][0]).is_integer())
    res = dict(violations=viol, digest=h.hexdigest(), lookups=n_lookups, cache_hits=hits, recurrence_checks=n_rec, conjugation_checks=n_conj, integer_bases=ints, bases=len(case["bases"]), max_abs_im=max(abs(b["N"][1]) for b in case["bases"]))
    if case["seed"] % 150 == 0 or viol:
        res["sample"] = dict(bases=case["bases"], lookups=[(o["c"], o["k"]) for o in case["ops"][:40]])
    return res


def shrink(case, res, still, ddmin):
    c = dict(case)
    if len(c["ops"]) > 1:

        def fails(sub):
            t = dict(c)
            t["ops"] = sub
            return still(t)

        c["ops"] = ddmin(c["ops"], fails, max_tests=300)
    return c


ASSUMPTIONS = [
    "tolerances of the definitional and recurrence checks are 10x the worst deviation measured on the unchanged tree (tools/calibrate_c24.py, 60 000 complex samples, N<=60): exact sums 1e-12, pegasus-style approximated nested sums up to 2e-5",
    "the clause about Mellin transforms of log- and g-functions that never enter the cache (g4..g22, lm1x) is not decided here: that is quadrature of pure functions",
    "a cache is always used with one consistent (N, parity flag) as the statement requires; integer-N definitions use the matching parity flag",
    "interpreted kernels (NUMBA_DISABLE_JIT=1)",
]


def summarize(results, tier):
    lookups = hits = rec = conj = ints = bases = 0
    digests = set()
    samples = []
    maxim = 0.0
    for r in results:
        lookups += r.get("lookups", 0)
        hits += r.get("cache_hits", 0)
        rec += r.get("recurrence_checks", 0)
        conj += r.get("conjugation_checks", 0)
        ints += r.get("integer_bases", 0)
        bases += r.get("bases", 0)
        maxim = max(maxim, r.get("max_abs_im", 0.0))
        if r.get("lookups", 0) >= 2:
            digests.add(r.get("digest"))
        if r.get("sample") and len(samples) < 3:
            samples.append(r["sample"])
    return dict(
        evaluations=lookups,
        distinct_nontrivial=len(digests),
        rule="one evaluation = one cache lookup, compared with a fresh single-lookup cache (and with the exact definition at integer N); a run = 1-3 base points N (integers 1-60 or complex with Re N in [0.5,50], |Im N|<=60), three caches each (N, N+1 with flipped parity, conj N), and a seeded lookup history (short / random with repeats / full permutation / reverse order / interleaved between caches), followed by a slot audit and the cross-cache recurrence and conjugation checks; distinct_nontrivial = distinct lookup-history digests with at least two lookups",
        samples=samples or [dict(note="none")],
        histories=len(results),
        lookups_answered_from_cache=hits,
        recurrence_checks=rec,
        conjugation_checks=conj,
        base_points=bases,
        integer_base_points=ints,
        max_abs_im_N=maxim,
        faults_fired={},
        components=dict(real=["ekore.harmonics.cache.get/reset and everything below (w1..w5, polygamma, g_functions)"], stub=[]),
    )
