"""C17 — coupling evaluations are independent of evaluation history.

System: one long-lived `Couplings` object (memo cache included) driven through
a seeded history of queries, caller-side mutations of returned arrays, and
pickle clones (what every pool task does to the object, cache included).
Reference model: memoryless — a freshly constructed object answers each query.
Oracle: every answer is bitwise the model's.
"""

import hashlib
import math
import pickle

import numpy as np

from ..batch import HarnessError
from ..decider import Decider

NAME = "couplings"

MTAU2 = 1.777**2


def generate(seed, tier, opts):
    d = Decider(seed, "couplings")
    qcd = d.pick("qcd", [1, 2, 2, 3, 3, 4])
    qed = d.pick("qed", [0, 0, 0, 1, 2])
    digits = d.pick("digits", [None, 2])

    def r(label, lo, hi):
        x = d.uniform(label, lo, hi)
        return round(x, digits) if digits is not None else x

    masses = [r("mc", 1.2, 2.0), r("mb", 4.2, 5.0), r("mt", 150.0, 180.0)]
    ratios = [r("kc", 0.6, 1.4), r("kb", 0.7, 2.0), r("kt", 0.5, 2.0)]
    if d.chance("unit", 0.3):
        ratios = [1.0, 1.0, 1.0]
    walls = [(k * k) * (m * m) for m, k in zip(masses, ratios)]  # as Couplings computes them: m^2 * k^2
    # reference point: anywhere, also exactly on a matching scale, also in a non-natural nf patch
    kind = d.weighted("refkind", [("mz", 4), ("wall", 3), ("free", 3)])
    if kind == "mz":
        ref_scale = 91.2
    elif kind == "wall":
        i = d.below("refwall", 2)
        ref_scale = masses[i] * ratios[i]
    else:
        ref_scale = math.exp(d.uniform("reflog", math.log(1.5), math.log(300.0)))
    natural = 3 + sum(1 for w in walls if w <= ref_scale**2)
    ref_nf = d.weighted("refnf", [(natural, 5), (max(3, natural - 1), 2), (min(6, natural + 1), 2), (None, 1)])
    cfg = dict(
        order=[qcd, qed],
        alphas=d.pick("as", [0.118, 0.35 if ref_scale < 3 else 0.118, 0.12]),
        alphaem=0.007496252,
        ref=[ref_scale, ref_nf],
        em_running=d.chance("emr", 0.5) if qed > 0 else d.chance("emr0", 0.1),
        method=d.pick("method", ["exact", "expanded"]),
        masses=[m * m for m in masses],
        scheme=d.pick("scheme", ["POLE", "MSBAR"]),
        ratios=[k * k for k in ratios],
    )
    pool = []
    for w in walls:
        pool += [w, w * (1 + 1e-9), w * (1 - 1e-9), w * (1 + 1e-3)]
    pool += [ref_scale**2, ref_scale**2 * (1 + 1e-9), ref_scale**2 * (1 - 1e-6), MTAU2, MTAU2 * 1.0001, MTAU2 * 0.9999]
    for _ in range(6):
        pool.append(math.exp(d.uniform("qlog", math.log(1.5), math.log(1e5))))
    nops = d.weighted("n", [(d.between("ns", 1, 4), 3), (d.between("nm", 5, 12), 4), (d.between("nl", 13, 30), 3)])
    ops = []
    for i in range(nops):
        kind = d.weighted("op", [("a", 8), ("a_s", 2), ("a_em", 1), ("mutate", 4), ("clone", 2), ("repeat", 3)])
        if kind == "repeat" and not any(o["op"] in ("a", "a_s", "a_em") for o in ops):
            kind = "a"
        if kind in ("a", "a_s", "a_em"):
            ops.append(dict(id=i, op=kind, scale=d.pick("scale", pool), nf=d.weighted("nf", [(None, 3), (3, 1), (4, 2), (5, 2), (6, 1)])))
        elif kind == "repeat":
            prev = d.pick("prev", [o for o in ops if o["op"] in ("a", "a_s", "a_em")])
            o = dict(prev)
            o["id"] = i
            ops.append(o)
        elif kind == "mutate":
            ops.append(dict(id=i, op="mutate", how=d.pick("how", ["scale", "nan", "zero", "swap"]), factor=d.pick("factor", [2.0, -1.0, 1e3])))
        else:
            ops.append(dict(id=i, op="clone"))
    return dict(seed=int(seed), cfg=cfg, ops=ops)


def build(cfg):
    from eko.couplings import Couplings
    from eko.quantities.couplings import CouplingEvolutionMethod, CouplingsInfo
    from eko.quantities.heavy_quarks import QuarkMassScheme

    info = CouplingsInfo(alphas=cfg["alphas"], alphaem=cfg["alphaem"], ref=(cfg["ref"][0], cfg["ref"][1]), em_running=cfg["em_running"])
    return Couplings(
        couplings=info,
        order=tuple(cfg["order"]),
        method=CouplingEvolutionMethod(cfg["method"]),
        masses=list(cfg["masses"]),
        hqm_scheme=QuarkMassScheme[cfg["scheme"]],
        thresholds_ratios=list(cfg["ratios"]),
    )


def _query(obj, op):
    f = getattr(obj, op["op"])
    return f(op["scale"], op["nf"])


def _bits(x):
    a = np.asarray(x)
    return (str(a.dtype), a.shape, a.tobytes())


def execute(case):
    viol = []
    h = hashlib.sha256()
    try:
        live = build(case["cfg"])
    except (NotImplementedError, ValueError) as e:
        return dict(violations=[], refused=repr(e), digest="refused")
    last = None  # last returned ndarray (the caller still holds it)
    nq = nmut = nclone = raised_both = 0
    cache_hits = 0
    for op in case["ops"]:
        kind = op["op"]
        if kind == "clone":
            live = pickle.loads(pickle.dumps(live))
            nclone += 1
            h.update(b"clone")
            continue
        if kind == "mutate":
            if isinstance(last, np.ndarray) and last.size:
                if op["how"] == "scale":
                    last *= op["factor"]
                elif op["how"] == "nan":
                    last[...] = np.nan
                elif op["how"] == "zero":
                    last[...] = 0.0
                else:
                    last[...] = last[::-1].copy()
                nmut += 1
            h.update(b"mutate")
            continue
        # a query: live object vs a freshly constructed one
        before = len(live.cache)
        try:
            got = _query(live, op)
            gerr = None
        except Exception as e:
            got, gerr = None, e
        if len(live.cache) == before:
            cache_hits += 1
        fresh = build(case["cfg"])
        try:
            exp = _query(fresh, op)
            eerr = None
        except Exception as e:
            exp, eerr = None, e
        nq += 1
        desc = f"{kind}({op['scale']!r}, nf_to={op['nf']})"
        if (gerr is None) != (eerr is None):
            viol.append(dict(cls="raises-differently", key="raises-differently", msg=f"{desc}: long-lived object {'raised ' + repr(gerr) if gerr else 'returned'}, fresh object {'raised ' + repr(eerr) if eerr else 'returned'}", op=op["id"]))
            break
        if gerr is not None:
            raised_both += 1
            h.update(b"raise")
            continue
        if _bits(got) != _bits(exp):
            viol.append(dict(cls="history-dependent-value", key="history-dependent-value", msg=f"{desc} after {nq - 1} earlier queries, {nmut} caller mutations, {nclone} clones returned {np.asarray(got).tolist()!r}; a fresh object returns {np.asarray(exp).tolist()!r}", op=op["id"]))
            break
        h.update(_bits(got)[2])
        last = got if isinstance(got, np.ndarray) else None
    res = dict(violations=viol, digest=h.hexdigest(), queries=nq, mutations=nmut, clones=nclone, raised_both=raised_both, cache_entries=len(live.cache), queries_without_new_cache_entry=cache_hits, sig=[case["cfg"]["order"][0], case["cfg"]["order"][1], case["cfg"]["method"], case["cfg"]["em_running"], case["cfg"]["scheme"]])
    if case["seed"] % 200 == 0 or viol:
        res["sample"] = dict(cfg=case["cfg"], ops=[{k: v for k, v in o.items() if k != "id"} for o in case["ops"]])
    return res


def shrink(case, res, still, ddmin):
    c = dict(case)
    if len(c["ops"]) > 1:

        def fails(sub):
            t = dict(c)
            t["ops"] = sub
            return still(t)

        c["ops"] = ddmin(c["ops"], fails)
    return c


ASSUMPTIONS = [
    "the reference model is a freshly constructed Couplings object with the same arguments answering one query (memoryless); equality is bitwise",
    "caller mutation is applied to the ndarray returned by the last a() query (a_s / a_em return scalars)",
    "clone = pickle round trip of the live object, cache included — what every pool task does to it",
    "interpreted kernels (NUMBA_DISABLE_JIT=1)",
]


def summarize(results, tier):
    nq = nm = nc = rb = hits = refused = 0
    sigs, digests = set(), set()
    samples = []
    for r in results:
        if r.get("refused"):
            refused += 1
            continue
        nq += r.get("queries", 0)
        nm += r.get("mutations", 0)
        nc += r.get("clones", 0)
        rb += r.get("raised_both", 0)
        hits += r.get("queries_without_new_cache_entry", 0)
        sigs.add(tuple(r.get("sig", [])))
        if r.get("queries", 0) >= 2:
            digests.add(r.get("digest"))
        if r.get("sample") and len(samples) < 3:
            samples.append(r["sample"])
    return dict(
        evaluations=nq,
        distinct_nontrivial=len(digests),
        rule="one evaluation = one query on the long-lived object compared bitwise with a fresh object; a run = one seeded configuration (orders, method, scheme, masses, ratios, reference point incl. on-threshold and non-natural nf) and a history of 1-30 queries / caller mutations / pickle clones; distinct_nontrivial = distinct answer-history digests among runs with at least two queries",
        samples=samples or [dict(note="none")],
        histories=len(results) - refused,
        refused_configurations=refused,
        caller_mutations=nm,
        pickle_clones=nc,
        queries_answered_from_memo=hits,
        queries_raising_on_both=rb,
        distinct_configurations=len(sigs),
        faults_fired={"alias-mutation": nm},
        components=dict(real=["eko.couplings.Couplings (a, a_s, a_em, compute, cache)", "eko.matchings.Atlas"], stub=[]),
    )
