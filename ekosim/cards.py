"""Seeded generator of (theory, operator) runcards as raw, JSON-able dicts."""

import math

NAN = float("nan")

CHEAP_METHODS = [
    "iterate-exact",
    "iterate-expanded",
    "truncated",
    "decompose-exact",
    "perturbative-exact",
    "ordered-truncated",
]


def walls_of(theory_raw):
    """Squared matching scales, computed the plain way: (k*m)^2 as k^2 * m^2."""
    ms = [m[0] for m in theory_raw["heavy"]["masses"]]
    ks = theory_raw["heavy"]["matching_ratios"]
    return [(k**2.0) * (m**2) for m, k in zip(ms, ks)]


def _r(d, label, lo, hi, digits=None):
    x = d.uniform(label, lo, hi)
    if digits is not None:
        x = round(x, digits)
    return x


def gen_theory(d, real=False, order=None):
    digits = d.pick("th:digits", [None, 3, 2])
    mc = _r(d, "th:mc", 1.2, 2.0, digits)
    mb = _r(d, "th:mb", 4.2, 5.0, digits)
    mt = _r(d, "th:mt", 150.0, 180.0, digits)
    kc = _r(d, "th:kc", 0.6, 1.4, digits)
    kb = _r(d, "th:kb", 0.7, 2.0, digits)
    kt = _r(d, "th:kt", 0.5, 2.0, digits)
    if d.chance("th:unitratios", 0.3):
        kc = kb = kt = 1.0
    if order is None:
        order = d.pick("th:order", [1, 1, 2]) if real else d.pick("th:order", [1, 2, 3])
    return dict(
        order=[order, 0],
        couplings=dict(
            alphas=0.118,
            alphaem=0.007496252,
            ref=[91.2, 5],
            em_running=False,
        ),
        heavy=dict(
            masses=[[mc, NAN], [mb, NAN], [mt, NAN]],
            masses_scheme="pole",
            matching_ratios=[kc, kb, kt],
        ),
        xif=1.0,
        n3lo_ad_variation=[0, 0, 0, 0, 0, 0, 0],
        use_fhmruvv=True,
        # real physics: NLO matching integrals cost ~10x an evolution part when
        # interpreted; an LO matching order with NLO evolution is a legal card
        matching_order=[0, 0] if (real and d.chance("th:lomatch", 0.8)) else [order - 1, 0],
    )


def gen_xgrid(d, npts=None):
    n = npts or d.pick("x:n", [3, 3, 4])
    lo = d.pick("x:lo", [1e-3, 1e-2, 5e-2, 0.1])
    pts = [lo * (1.0 / lo) ** (i / (n - 1)) for i in range(n - 1)] + [1.0]
    # de-duplicate through rounding noise
    pts = sorted(set(float(f"{p:.6g}") for p in pts))
    if len(pts) < 3:
        pts = [0.1, 0.5, 1.0]
    return pts


def gen_operator(d, theory_raw, real=False, max_targets=5, min_targets=1, allow_down=True, allow_dup=False, xgrid_max=4):
    walls = walls_of(theory_raw)
    lin_walls = [math.sqrt(w) for w in walls]
    nf0 = d.pick("op:nf0", [3, 4, 4, 5, 5, 6]) if not real else d.pick("op:nf0", [3, 4, 4, 5])
    # initial scale: anywhere (the path walks to the right patch by itself)
    mu0 = _r(d, "op:mu0", 1.3, 60.0, d.pick("op:mu0digits", [None, 2]))
    mu0kind = d.weighted("op:mu0kind", [("free", 7), ("wall", 2), ("near", 1)])
    if mu0kind != "free":
        # the initial point exactly on (or one part in 1e9 beside) a matching scale
        i0 = d.below("op:mu0wall", 2)
        ms0 = [m[0] for m in theory_raw["heavy"]["masses"]]
        ks0 = theory_raw["heavy"]["matching_ratios"]
        mu0 = d.pick("op:mu0form", [ms0[i0] * ks0[i0], lin_walls[i0]])
        if mu0kind == "near":
            mu0 *= 1.0 + d.pick("op:mu0eps", [1e-9, -1e-9])
        if d.chance("op:mu0nf", 0.7):
            nf0 = d.pick("op:mu0side", [i0 + 3, i0 + 4])
    ntargets = d.between("op:ntargets", min_targets, max_targets)
    targets = []
    seen = set()
    tries = 0
    while len(targets) < ntargets and tries < 50:
        tries += 1
        kind = d.weighted(
            "op:tkind",
            [("free", 6), ("wall", 3), ("init", 1), ("near", 1)],
        )
        if kind == "free":
            mu = math.exp(d.uniform("op:logmu", math.log(1.3), math.log(400.0)))
            if d.chance("op:rounded", 0.5):
                mu = round(mu, 2)
        elif kind == "wall":
            i = d.below("op:wall", 2 if real else 3)
            ms = [m[0] for m in theory_raw["heavy"]["masses"]]
            ks = theory_raw["heavy"]["matching_ratios"]
            mu = d.pick("op:wallform", [ms[i] * ks[i], lin_walls[i]])
        elif kind == "init":
            mu = mu0
        else:
            base = d.pick("op:nearbase", lin_walls[:2] + [mu0])
            mu = base * (1.0 + d.pick("op:neareps", [1e-9, -1e-9, 1e-4, -1e-4]))
        if kind == "init" and d.chance("op:initnf", 0.7):
            nf = nf0
        elif kind == "wall" and d.chance("op:wallnf", 0.7):
            # exactly on a matching scale: the scheme below it (path ends on the
            # wall) or the scheme above it (path crosses the wall and stops)
            nf = d.pick("op:wallside", [i + 3, i + 4])
        else:
            default = 3 + sum(1 for w in walls if w <= mu * mu)
            nf = d.weighted(
                "op:tnf",
                [(default, 4), (3, 1), (4, 1), (5, 1), (6, 0 if real else 1)],
            )
        if not allow_down and nf < nf0:
            nf = nf0
        key = (float(mu).hex(), nf)
        if key in seen:
            continue
        seen.add(key)
        targets.append([mu, nf])
    if d.chance("op:chain", 0.3):
        chain = _chain_targets(d, theory_raw, walls, lin_walls, nf0, real, max_targets)
        if len(chain) >= min_targets:
            targets = d.shuffle("op:chainorder", chain)
    if allow_dup and targets and d.chance("op:dup", 0.08):
        # a repeated evolution point is legal input (the runner walks the grid as given)
        targets.insert(d.below("op:duppos", len(targets) + 1), list(d.pick("op:dupwhich", targets)))
    downward = any(nf < nf0 for _, nf in targets)
    method = d.pick("op:method", CHEAP_METHODS)
    xgrid = gen_xgrid(d, d.pick("x:nbig", [5, 6, 7, 8])) if (xgrid_max > 4 and d.chance("x:big", 0.5)) else gen_xgrid(d)
    deg = d.pick("op:deg", [1, 2]) if len(xgrid) > 2 else 1
    return dict(
        init=[mu0, nf0],
        mugrid=targets,
        xgrid=xgrid,
        configs=dict(
            evolution_method=method,
            ev_op_max_order=[10, 0],
            ev_op_iterations=d.pick("op:iters", [1, 2, 3]),
            scvar_method=None,
            inversion_method=(
                d.pick("op:inv", ["exact", "expanded"])
                if (downward or d.chance("op:invany", 0.3))
                else None
            ),
            interpolation_polynomial_degree=deg,
            interpolation_is_log=d.pick("op:islog", [True, True, False]),
            polarized=False,
            time_like=False,
            n_integration_cores=1,
        ),
        debug=dict(skip_singlet=False, skip_non_singlet=False),
    )


def _chain_targets(d, theory_raw, walls, lin_walls, nf0, real, max_targets):
    """Targets strung along ONE flavour-number chain: some of them exactly on the
    matching scales the chain crosses (so that their whole path is a prefix of the
    paths of the targets further along), one beyond."""
    top = 5 if real else 6
    ups = nf0 < top
    downs = nf0 > 3
    if not (ups or downs):
        return []
    up = ups and (not downs or d.chance("ch:dir", 0.6))
    ms = [m[0] for m in theory_raw["heavy"]["masses"]]
    ks = theory_raw["heavy"]["matching_ratios"]
    out = []
    if up:
        idx = list(range(nf0 - 3, top - 3))  # walls crossed going up
        for i in idx:
            if d.chance("ch:onwall", 0.7):
                out.append([d.pick("ch:form", [ms[i] * ks[i], lin_walls[i]]), i + 3])
        last = idx[-1] if idx else None
        nf_end = d.between("ch:nfend", nf0 + 1, top)
        lo = lin_walls[nf_end - 4]
        out.append([round(lo * d.uniform("ch:beyond", 1.1, 4.0), 3), nf_end])
    else:
        idx = list(range(nf0 - 4, -1, -1))  # walls crossed going down
        for i in idx:
            if d.chance("ch:onwall", 0.7):
                out.append([d.pick("ch:form", [ms[i] * ks[i], lin_walls[i]]), i + 4])
        nf_end = d.between("ch:nfend", 3, nf0 - 1)
        hi = lin_walls[nf_end - 3]
        out.append([round(max(1.3, hi * d.uniform("ch:beyond", 0.3, 0.9)), 3), nf_end])
    seen, uniq = set(), []
    for mu, nf in out:
        k = (float(mu).hex(), nf)
        if k not in seen:
            seen.add(k)
            uniq.append([mu, nf])
    return uniq[:max_targets]


def gen_cards(d, real=False, qed_frac=0.0, **kw):
    th = gen_theory(d, real=real)
    op = gen_operator(d, th, real=real, **kw)
    if real and qed_frac and d.chance("qed", qed_frac):
        # QCD x QED evolution (unified flavour basis): only iterate-exact is implemented,
        # ~10x the cost of LO QCD when interpreted -> one target, LO, one iteration
        th["order"] = [1, 1]
        th["matching_order"] = [0, 0]
        th["couplings"]["em_running"] = d.chance("qed:running", 0.5)
        op["configs"]["evolution_method"] = "iterate-exact"
        op["configs"]["ev_op_iterations"] = 1
        op["mugrid"] = op["mugrid"][:1]
        op["xgrid"] = op["xgrid"][-3:] if len(op["xgrid"]) > 3 else op["xgrid"]
        op["configs"]["interpolation_polynomial_degree"] = min(op["configs"]["interpolation_polynomial_degree"], len(op["xgrid"]) - 1)
    return th, op


def build(theory_raw, operator_raw):
    """raw dicts -> (TheoryCard, OperatorCard); imports eko lazily."""
    import copy

    from eko.io.runcards import OperatorCard, TheoryCard

    return (
        TheoryCard.from_dict(copy.deepcopy(theory_raw)),
        OperatorCard.from_dict(copy.deepcopy(operator_raw)),
    )
