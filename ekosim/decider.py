"""One integer decides everything.

Every choice is H(seed, label, counter[label]) — labelled and independently
counted, so removing an operation while shrinking does not shift every later
decision, and logging (which never draws) cannot perturb a schedule.
"""

import hashlib
import struct


class Decider:
    def __init__(self, seed, namespace=""):
        self.seed = int(seed)
        self.ns = namespace
        self.counters = {}
        self.draws = 0

    def _h(self, label):
        k = self.counters.get(label, 0)
        self.counters[label] = k + 1
        self.draws += 1
        msg = f"{self.seed}|{self.ns}|{label}|{k}".encode()
        return hashlib.blake2b(msg, digest_size=8).digest()

    def u64(self, label):
        return struct.unpack("<Q", self._h(label))[0]

    def below(self, label, n):
        """Integer in [0, n)."""
        if n <= 0:
            raise ValueError("n must be positive")
        return self.u64(label) % n

    def between(self, label, lo, hi):
        """Integer in [lo, hi]."""
        return lo + self.below(label, hi - lo + 1)

    def uniform(self, label, lo=0.0, hi=1.0):
        return lo + (hi - lo) * ((self.u64(label) >> 11) / float(1 << 53))

    def chance(self, label, p):
        return self.uniform(label) < p

    def pick(self, label, seq):
        seq = list(seq)
        return seq[self.below(label, len(seq))]

    def weighted(self, label, pairs):
        """pairs: [(item, weight)], integer or float weights."""
        tot = float(sum(w for _, w in pairs))
        x = self.uniform(label) * tot
        acc = 0.0
        for item, w in pairs:
            acc += w
            if x < acc:
                return item
        return pairs[-1][0]

    def shuffle(self, label, seq):
        """Return a permuted copy (Fisher-Yates, one labelled stream)."""
        out = list(seq)
        for i in range(len(out) - 1, 0, -1):
            j = self.below(label, i + 1)
            out[i], out[j] = out[j], out[i]
        return out

    def sample(self, label, seq, k):
        return self.shuffle(label, seq)[:k]

    def fork(self, label):
        """Independent sub-decider."""
        return Decider(self.u64("fork:" + label), namespace=self.ns + "/" + label)

    def bytes(self, label, n):
        out = b""
        while len(out) < n:
            out += self._h(label)
        return out[:n]
