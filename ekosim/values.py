"""Seeded operator values and evolution-point keys for store-level engines."""

import hashlib
import struct

import numpy as np

SPECIALS = [0.0, -0.0, float("inf"), float("-inf"), 5e-324, -5e-324, 2.2250738585072014e-308, 1.7976931348623157e308]


def _rng(seed, tag):
    h = hashlib.blake2b(f"{seed}|{tag}".encode(), digest_size=8).digest()
    return np.random.Generator(np.random.PCG64(int.from_bytes(h, "little")))


def nan_with_payload(payload, negative=False, quiet=True):
    bits = 0x7FF0000000000000 | (0x0008000000000000 if quiet else 0) | (payload & 0x0007FFFFFFFFFFFF)
    if not quiet and (payload & 0x0007FFFFFFFFFFFF) == 0:
        bits |= 1
    if negative:
        bits |= 0x8000000000000000
    return struct.unpack("<d", struct.pack("<Q", bits))[0]


def make_array(seed, tag, shape, special=True, uid=None):
    """Deterministic array; `uid` is embedded in element [0,0,0,0] so that every
    written value is unique and attributable to one write."""
    rng = _rng(seed, tag)
    a = rng.normal(size=shape)
    if special and a.size >= 8:
        flat = a.reshape(-1)
        k = int(rng.integers(1, min(8, flat.size)))
        idx = rng.choice(flat.size, size=k, replace=False)
        for j, i in enumerate(idx):
            c = int(rng.integers(0, len(SPECIALS) + 2))
            if c < len(SPECIALS):
                flat[i] = SPECIALS[c]
            else:
                # build NaNs with payloads through an integer view (no FP op touches them)
                flat.view(np.uint64)[i] = struct.unpack(
                    "<Q", struct.pack("<d", nan_with_payload(int(rng.integers(1, 2**40)), negative=bool(c % 2)))
                )[0]
    if special and a.size >= 3:
        # every "special" array carries at least one zero and one NaN (so that a
        # bitwise twin, see below, always exists)
        flat = a.reshape(-1)
        flat[-1] = 0.0
        flat.view(np.uint64)[-2] = struct.unpack("<Q", struct.pack("<d", nan_with_payload(12345)))[0]
    if uid is not None:
        a.reshape(-1)[0] = float(uid)
    return a


def twin(a, k):
    """An array that compares == (NaN-aware) to `a` but differs bitwise: the sign
    of every zero is flipped and every NaN gets another payload."""
    b = a.copy()
    flat = b.reshape(-1)
    bits = flat.view(np.uint64)
    zero = flat == 0.0
    bits[zero] ^= np.uint64(0x8000000000000000)
    nan = np.isnan(flat)
    bits[nan] ^= np.uint64(((k * 2654435761) & 0x0003FFFFFFFFFFFF) | 1)
    return b


def operator_from_spec(seed, spec):
    """spec: {"uid": int, "p": int, "x": int, "err": bool, "special": bool,
    "twin": int (optional: bitwise-different but ==-equal variant of the base value)}"""
    from eko.io.items import Operator

    shape = (spec["p"], spec["x"], spec["p"], spec["x"])
    op = make_array(seed, f"op{spec['uid']}", shape, spec.get("special", True), uid=spec["uid"])
    err = None
    if spec.get("err"):
        err = make_array(seed, f"err{spec['uid']}", shape, spec.get("special", True), uid=-spec["uid"])
    if spec.get("twin"):
        op = twin(op, spec["twin"])
        if err is not None:
            err = twin(err, spec["twin"])
    return Operator(op, err)


def same_bits(a, b):
    if a is None or b is None:
        return a is None and b is None
    a = np.asarray(a)
    b = np.asarray(b)
    return a.dtype == b.dtype and a.shape == b.shape and a.tobytes() == b.tobytes()


# --- keys ------------------------------------------------------------------
def realize_key(k):
    """JSON key spec -> the Python object handed to eko.

    k = {"scale": float, "nf": int, "stype": "float"|"int"|"np64"|"np32"?, "ntype": "int"|"np64"}
    """
    s = k["scale"]
    st = k.get("stype", "float")
    if st == "int":
        s = int(s)
    elif st == "np64":
        s = np.float64(s)
    elif st == "npgrid":
        s = np.array([s, 1.0])[0]
    else:
        s = float(s)
    n = k["nf"]
    if k.get("ntype") == "np64":
        n = np.int64(n)
    else:
        n = int(n)
    return (s, n)


def key_id(k):
    """Model identity of a key: numbers compare as Python numbers do."""
    return (float(k["scale"]), int(k["nf"]))
