"""Ground truth for the harmonic-sum cache (no eko code).

* exact rational nested sums at positive integer N,
* scipy references at half-integer arguments (S_m(x) = zeta(m) - zeta(m, x+1)),
* defining integral of g3,
* one-step recurrences / cross-cache identities for complex N.
"""

import functools
from fractions import Fraction

import numpy as np

KEYS = [
    "S1", "S2", "S3", "S4", "S5",
    "Sm1", "Sm2", "Sm3", "Sm4", "Sm5",
    "S21", "S2m1", "Sm21", "Sm2m1", "S31", "Sm31", "Sm22", "S211", "Sm211",
    "S1h", "S2h", "S3h", "S1mh", "S2mh", "S3mh", "S1ph", "S2ph", "S3ph",
    "g3", "S1p2", "g3p2",
]  # fmt: skip
IDX = {k: i for i, k in enumerate(KEYS)}
NEEDS_FLAG = {"Sm1", "Sm2", "Sm3", "Sm4", "Sm5", "S2m1", "Sm21", "Sm2m1", "Sm31", "Sm22", "Sm211"}

ZETA2 = 1.6449340668482264


@functools.lru_cache(maxsize=None)
def _S(m, n):
    """S_m(n) exact; m<0 alternating."""
    if n == 0:
        return Fraction(0)
    a = abs(m)
    term = Fraction((-1) ** n if m < 0 else 1, n**a)
    return _S(m, n - 1) + term


@functools.lru_cache(maxsize=None)
def _nested(idx, n):
    """S_{idx}(n) for a tuple of indices, exact."""
    if n == 0:
        return Fraction(0)
    m = idx[0]
    a = abs(m)
    sign = (-1) ** n if m < 0 else 1
    inner = Fraction(1) if len(idx) == 1 else _nested(idx[1:], n)
    return _nested(idx, n - 1) + Fraction(sign, n**a) * inner


def _nested_iter(idx, n):
    # fill the lru cache bottom-up to avoid deep recursion
    for k in range(1, n + 1):
        for j in range(len(idx)):
            _nested(idx[j:], k)
    return _nested(idx, n)


NESTED = {
    "S21": (2, 1), "S2m1": (2, -1), "Sm21": (-2, 1), "Sm2m1": (-2, -1), "S31": (3, 1),
    "Sm31": (-3, 1), "Sm22": (-2, 2), "S211": (2, 1, 1), "Sm211": (-2, 1, 1),
}  # fmt: skip


def s_real(m, x):
    """S_m(x) for real x > -1 through scipy (independent of eko)."""
    from scipy import special

    if float(x).is_integer() and x >= 0:
        return float(_nested_iter((m,), int(x)))
    if m == 1:
        return float(special.digamma(x + 1.0) + np.euler_gamma)
    return float(special.zeta(m, 1.0) - special.zeta(m, x + 1.0))


@functools.lru_cache(maxsize=None)
def g3_integral(n):
    """M[Li2(x)/(1+x)](n) by quadrature (n real >= 1)."""
    from scipy import integrate, special

    def f(x):
        return x ** (n - 1.0) * special.spence(1.0 - x) / (1.0 + x)

    val, err = integrate.quad(f, 0.0, 1.0, epsabs=1e-13, epsrel=1e-13, limit=200)
    return val


def definition(key, n):
    """Exact value at positive integer n (matching parity flag understood)."""
    if key in ("S1", "S2", "S3", "S4", "S5"):
        return float(_nested_iter((int(key[1]),), n))
    if key in ("Sm1", "Sm2", "Sm3", "Sm4", "Sm5"):
        return float(_nested_iter((-int(key[2]),), n))
    if key in NESTED:
        return float(_nested_iter(NESTED[key], n))
    if key[0] == "S" and key[2:] in ("h", "mh", "ph"):
        m = int(key[1])
        x = {"h": n / 2.0, "mh": (n - 1) / 2.0, "ph": (n + 1) / 2.0}[key[2:]]
        return s_real(m, x)
    if key == "S1p2":
        return float(_nested_iter((1,), n + 2))
    if key == "g3":
        return g3_integral(n)
    if key == "g3p2":
        return g3_integral(n + 2)
    raise KeyError(key)


def recurrence_residuals(N, eta_next, lo, hi):
    """Residuals of the one-step identities between a cache at N (`lo`) and a
    cache at N+1 (`hi`); both are dicts key -> complex (only keys present in
    both/needed are used).  eta_next = (-1)^(N+1) of the continuation of `hi`.

    Yields (name, residual, scale).
    """
    M = N + 1.0

    def have(d, *ks):
        return all(k in d for k in ks)

    for m in range(1, 6):
        k = f"S{m}"
        if have(lo, k) and have(hi, k):
            yield k, hi[k] - lo[k] - 1.0 / M**m, max(1.0, abs(hi[k]))
        k = f"Sm{m}"
        if have(lo, k) and have(hi, k):
            yield k, hi[k] - lo[k] - eta_next / M**m, max(1.0, abs(hi[k]))
    if have(lo, "S21") and have(hi, "S21", "S1"):
        yield "S21", hi["S21"] - lo["S21"] - hi["S1"] / M**2, max(1.0, abs(hi["S21"]))
    if have(lo, "S2m1") and have(hi, "S2m1", "Sm1"):
        yield "S2m1", hi["S2m1"] - lo["S2m1"] - hi["Sm1"] / M**2, max(1.0, abs(hi["S2m1"]))
    if have(lo, "Sm21") and have(hi, "Sm21", "S1"):
        yield "Sm21", hi["Sm21"] - lo["Sm21"] - eta_next * hi["S1"] / M**2, max(1.0, abs(hi["Sm21"]))
    if have(lo, "Sm2m1") and have(hi, "Sm2m1", "Sm1"):
        yield "Sm2m1", hi["Sm2m1"] - lo["Sm2m1"] - eta_next * hi["Sm1"] / M**2, max(1.0, abs(hi["Sm2m1"]))
    if have(lo, "S31") and have(hi, "S31", "S1"):
        yield "S31", hi["S31"] - lo["S31"] - hi["S1"] / M**3, max(1.0, abs(hi["S31"]))
    if have(lo, "Sm31") and have(hi, "Sm31", "S1"):
        yield "Sm31", hi["Sm31"] - lo["Sm31"] - eta_next * hi["S1"] / M**3, max(1.0, abs(hi["Sm31"]))
    if have(lo, "Sm22") and have(hi, "Sm22", "S2"):
        yield "Sm22", hi["Sm22"] - lo["Sm22"] - eta_next * hi["S2"] / M**2, max(1.0, abs(hi["Sm22"]))
    if have(hi, "S1", "S2"):
        s11 = (hi["S1"] ** 2 + hi["S2"]) / 2.0
        if have(lo, "S211") and have(hi, "S211"):
            yield "S211", hi["S211"] - lo["S211"] - s11 / M**2, max(1.0, abs(hi["S211"]))
        if have(lo, "Sm211") and have(hi, "Sm211"):
            yield "Sm211", hi["Sm211"] - lo["Sm211"] - eta_next * s11 / M**2, max(1.0, abs(hi["Sm211"]))
    # half-argument identities across the pair
    for m in range(1, 4):
        if have(lo, f"S{m}ph") and have(hi, f"S{m}h"):
            yield f"S{m}ph=S{m}h(N+1)", hi[f"S{m}h"] - lo[f"S{m}ph"], max(1.0, abs(hi[f"S{m}h"]))
        if have(lo, f"S{m}h") and have(hi, f"S{m}mh"):
            yield f"S{m}h=S{m}mh(N+1)", hi[f"S{m}mh"] - lo[f"S{m}h"], max(1.0, abs(hi[f"S{m}mh"]))
        if have(lo, f"S{m}mh", f"S{m}ph"):
            yield f"S{m}ph-S{m}mh", lo[f"S{m}ph"] - lo[f"S{m}mh"] - 1.0 / ((N + 1.0) / 2.0) ** m, max(1.0, abs(lo[f"S{m}ph"]))
    if have(lo, "S1p2") and have(hi, "S1"):
        yield "S1p2", lo["S1p2"] - hi["S1"] - 1.0 / (N + 2.0), max(1.0, abs(lo["S1p2"]))
    if have(lo, "g3", "S1") and have(hi, "g3"):
        yield "g3", hi["g3"] + lo["g3"] - (ZETA2 - lo["S1"] / N) / N, 1.0
    if have(lo, "g3p2") and have(hi, "g3", "S1"):
        yield "g3p2", lo["g3p2"] + hi["g3"] - (ZETA2 - hi["S1"] / M) / M, 1.0
