"""Independent reference of the flavour-number path (no eko code).

A path from (mu20, nf0) to (mu2, nf) is monotonic in nf; each nf step crosses
the matching scale of the heavier quark of the two schemes; the matching is
"inverse" iff the number of flavours decreases.
"""

import bisect
import math


def default_nf(mu2, walls3):
    """nf of the default flow: 3 + number of matching scales <= mu2."""
    return 3 + bisect.bisect_right(list(walls3), mu2)


def blocks(walls3, origin, target):
    """List of ('E', origin, target, nf) / ('M', scale, hq, inverse)."""
    mu20, nf0 = origin
    mu2, nf = target
    if nf is None:
        nf = default_nf(mu2, walls3)
    out = []
    cur = mu20
    if nf >= nf0:
        for n in range(nf0, nf):
            wall = walls3[n - 3]
            out.append(("E", cur, wall, n))
            out.append(("M", wall, n + 1, False))
            cur = wall
        out.append(("E", cur, mu2, nf))
    else:
        for n in range(nf0, nf, -1):
            wall = walls3[n - 4]
            out.append(("E", cur, wall, n))
            out.append(("M", wall, n, True))
            cur = wall
        out.append(("E", cur, mu2, nf))
    return out


def feq(a, b, rtol=1e-12):
    if a == b:
        return True
    if math.isinf(a) or math.isinf(b):
        return False
    return abs(a - b) <= rtol * max(abs(a), abs(b))


def block_matches_header(block, header_kind, header, exact=False):
    """Physical identity of an archived part vs a reference block."""
    if exact:
        eq = lambda a, b: a == b  # noqa: E731
    else:
        eq = feq
    return _bmh(block, header_kind, header, eq)


def _bmh(block, header_kind, header, feq):
    if block[0] == "E":
        if header_kind != "E":
            return False
        return (
            feq(float(header["origin"]), block[1])
            and feq(float(header["target"]), block[2])
            and int(header["nf"]) == block[3]
        )
    if header_kind != "M":
        return False
    return (
        feq(float(header["scale"]), block[1])
        and int(header["hq"]) == block[2]
        and bool(header["inverse"]) == block[3]
    )
