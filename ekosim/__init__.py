"""ekosim — deterministic simulation with fault injection for NNPDF/eko.

See /verif/DESIGN.md.  Nothing in here imports eko at module import time;
``ekosim.env.setup()`` must be called first (it fixes NUMBA_DISABLE_JIT and
sys.path so that eko is imported from the current working tree).
"""

__all__ = ["env"]
