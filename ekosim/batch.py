"""Batches of simulated runs, replay files, shrinking, evidence, exit protocol."""

import concurrent.futures as cf
import faulthandler
import hashlib
import importlib
import json
import multiprocessing
import os
import shutil
import signal
import subprocess
import sys
import tempfile
import time
import traceback

from . import env

REAL_PERF = time.perf_counter

EXIT_OK, EXIT_VIOLATION, EXIT_HARNESS = 0, 1, 2


class HarnessError(Exception):
    pass


class HarnessTimeout(HarnessError):
    pass


def engine_module(name):
    return importlib.import_module(f"ekosim.engines.{name}")


# ---------------------------------------------------------------------------
# one run, in a worker


def _alarm(signum, frame):
    raise HarnessTimeout("per-run watchdog expired")


class Scratch:
    """Private scratch root of one run, removed on exit."""

    def __init__(self, tag="run"):
        base = os.environ.get("EKOSIM_TMP") or os.environ.get("TMPDIR") or "/tmp"
        self.path = tempfile.mkdtemp(prefix=f"ekosim-{tag}-", dir=base)

    def __enter__(self):
        return self.path

    def __exit__(self, *a):
        shutil.rmtree(self.path, ignore_errors=True)
        return False


def run_case(engine_name, case, limit=120, hermetic=True):
    """Execute one case, by default in a forked child of this process (hermetic: whatever
    module-level state the code under test mutates dies with the child, so the
    result of a case never depends on which cases ran before it in the same
    worker, and a replay in a fresh interpreter sees the same thing).  Never
    raises: harness problems are reported in the result as `harness_error`."""
    import pickle
    import select

    # Batches run in-process (a fork of an interpreter with numpy/scipy/numba loaded
    # costs ~0.1-2 s); everything the driver re-runs on its own - focus, shrinking,
    # regression replays, --replay - runs hermetically.
    if not hermetic or os.environ.get("EKOSIM_NO_FORK"):
        return _run_case_inproc(engine_name, case, limit)
    t0 = REAL_PERF()
    r, w = os.pipe()
    pid = os.fork()
    if pid == 0:
        try:
            os.close(r)
            try:
                res = _run_case_inproc(engine_name, case, limit)
                data = pickle.dumps(res)
            except BaseException as e:  # noqa
                data = pickle.dumps({"harness_error": f"child: {type(e).__name__}: {e}\n{traceback.format_exc()}", "violations": []})
            with os.fdopen(w, "wb") as f:
                f.write(data)
        finally:
            os._exit(0)
    os.close(w)
    chunks = []
    deadline = t0 + limit + 60
    killed = False
    with os.fdopen(r, "rb") as f:
        while True:
            left = deadline - REAL_PERF()
            if left <= 0:
                os.kill(pid, signal.SIGKILL)
                killed = True
                break
            ready, _, _ = select.select([f], [], [], min(left, 5.0))
            if ready:
                b = f.read1(1 << 20) if hasattr(f, "read1") else f.read(1 << 20)
                if not b:
                    break
                chunks.append(b)
    _, status = os.waitpid(pid, 0)
    if killed:
        res = {"harness_error": "HarnessTimeout: simulated run killed by the parent watchdog", "violations": []}
    else:
        try:
            res = pickle.loads(b"".join(chunks))
        except Exception as e:
            res = {"harness_error": f"simulation child died (wait status {status}): {e!r}", "violations": []}
    res.setdefault("violations", [])
    res["wall"] = REAL_PERF() - t0
    return res


def _run_case_inproc(engine_name, case, limit=120):
    """Execute one case with a watchdog, in this process."""
    mod = engine_module(engine_name)
    t0 = REAL_PERF()
    old = signal.signal(signal.SIGALRM, _alarm)
    signal.alarm(int(limit))
    cwd = os.getcwd()
    try:
        res = mod.execute(case)
    except HarnessError as e:
        res = {"harness_error": f"{type(e).__name__}: {e}\n{traceback.format_exc()}"}
    except BaseException as e:  # noqa: harness bug, never a VIOLATION
        res = {"harness_error": f"{type(e).__name__}: {e}\n{traceback.format_exc()}"}
    finally:
        signal.alarm(0)
        signal.signal(signal.SIGALRM, old)
        try:
            sys.settrace(None)
            from . import seams as _s

            # belt and braces: a crashed run must not leave seams installed
            for n, f in _s.ORIG.items():
                setattr(os, n, f)
            import builtins
            import io
            import tarfile
            import tempfile as _tf

            io.open = _s.ORIG_IO_OPEN
            builtins.open = _s.ORIG_BUILTIN_OPEN
            tarfile.bltn_open = _s.ORIG_TAR_OPEN
            for n, f in _s.ORIG_TIME.items():
                setattr(time, n, f)
            _tf.tempdir = _s.ORIG_TEMPDIR
            _tf._name_sequence = _s.ORIG_NAMESEQ
            os.chdir(cwd)
        except Exception:
            pass
    res.setdefault("violations", [])
    res["wall"] = REAL_PERF() - t0
    return res


def _run_seed(args):
    engine_name, seed, tier, opts = args
    mod = engine_module(engine_name)
    try:
        case = mod.generate(seed, tier, opts)
    except BaseException as e:
        return {
            "seed": seed,
            "harness_error": f"generate: {type(e).__name__}: {e}\n{traceback.format_exc()}",
            "violations": [],
        }
    res = run_case(engine_name, case, limit=opts.get("limit", 120), hermetic=bool(os.environ.get("EKOSIM_FORK")))
    res["seed"] = seed
    if res["violations"] or res.get("harness_error") or opts.get("keep_case"):
        res["case"] = case
    return res


def _init_worker():
    faulthandler.enable()
    signal.signal(signal.SIGINT, signal.SIG_IGN)


def run_seeds(engine_name, seeds, tier, jobs, opts=None, progress=None, wall_budget=None):
    """Run many seeds; results are returned in seed order (independent of jobs)."""
    opts = dict(opts or {})
    seeds = list(seeds)
    results = {}
    t0 = REAL_PERF()
    if jobs <= 1:
        for s in seeds:
            results[s] = _run_seed((engine_name, s, tier, opts))
            if wall_budget and REAL_PERF() - t0 > wall_budget:
                break
        return [results[s] for s in seeds if s in results]
    ctx = multiprocessing.get_context("fork")
    with cf.ProcessPoolExecutor(max_workers=jobs, mp_context=ctx, initializer=_init_worker) as ex:
        pending = {}
        it = iter(seeds)
        exhausted = False
        try:
            while True:
                while not exhausted and len(pending) < jobs * 3:
                    if wall_budget and REAL_PERF() - t0 > wall_budget:
                        exhausted = True
                        break
                    try:
                        s = next(it)
                    except StopIteration:
                        exhausted = True
                        break
                    pending[ex.submit(_run_seed, (engine_name, s, tier, opts))] = s
                if not pending:
                    break
                done, _ = cf.wait(list(pending), return_when=cf.FIRST_COMPLETED, timeout=600)
                if not done:
                    raise HarnessError("no run completed within 600 s")
                for fut in done:
                    s = pending.pop(fut)
                    results[s] = fut.result()
                    if progress:
                        progress(len(results))
        except cf.process.BrokenProcessPool as e:
            raise HarnessError(f"a simulation worker died: {e}") from e
    return [results[s] for s in seeds if s in results]


# ---------------------------------------------------------------------------
# shrinking


def ddmin(items, fails, max_tests=400):
    """Classic ddmin over a list; `fails(sublist)` -> bool."""
    n = 2
    tests = 0
    items = list(items)
    while len(items) >= 2 and tests < max_tests:
        chunk = max(1, len(items) // n)
        subsets = [items[i : i + chunk] for i in range(0, len(items), chunk)]
        reduced = False
        for i, sub in enumerate(subsets):
            comp = [x for j, s in enumerate(subsets) if j != i for x in s]
            tests += 1
            if comp and fails(comp):
                items = comp
                n = max(n - 1, 2)
                reduced = True
                break
        if not reduced:
            if n >= len(items):
                break
            n = min(len(items), n * 2)
    if len(items) == 1 and tests < max_tests:
        pass
    return items


def violation_class(res):
    if not res.get("violations"):
        return None
    return res["violations"][0]["cls"]


def has_class(res, cls):
    return any(v["cls"] == cls for v in res.get("violations", []))


def put_first(res, cls):
    """Reorder the violations so that one of class `cls` comes first."""
    vs = res.get("violations", [])
    res["violations"] = [v for v in vs if v["cls"] == cls] + [v for v in vs if v["cls"] != cls]
    return res


def shrink_case(engine_name, case, res, budget_s=120):
    """Shrink a failing case while the same violation class persists."""
    mod = engine_module(engine_name)
    t0 = REAL_PERF()
    cls = violation_class(res)

    def still(c):
        if REAL_PERF() - t0 > budget_s:
            return False
        r = run_case(engine_name, c)
        return (not r.get("harness_error")) and has_class(r, cls)

    if hasattr(mod, "shrink"):
        try:
            return mod.shrink(case, res, still, ddmin)
        except Exception:
            return case
    for key in ("ops", "queries", "faults"):
        if isinstance(case.get(key), list) and len(case[key]) > 1:

            def fails(sub, key=key):
                c = dict(case)
                c[key] = sub
                return still(c)

            case = dict(case)
            case[key] = ddmin(case[key], fails)
    return case


# ---------------------------------------------------------------------------
# replay files


def _jsonable(o):
    import numpy as np

    if isinstance(o, (np.integer,)):
        return int(o)
    if isinstance(o, (np.floating,)):
        return float(o)
    if isinstance(o, np.ndarray):
        return o.tolist()
    if isinstance(o, (set, tuple)):
        return list(o)
    if isinstance(o, bytes):
        return o.hex()
    return repr(o)


def write_replay(prop, engine_name, case, res, tag=""):
    d = os.path.join(env.VERIF, "replays", prop)
    os.makedirs(d, exist_ok=True)
    body = {
        "property": prop,
        "engine": engine_name,
        "case": case,
        "expect": {
            "cls": violation_class(res),
            "msg": res["violations"][0]["msg"] if res.get("violations") else None,
            "key": res["violations"][0].get("key") if res.get("violations") else None,
            "digest": res.get("digest"),
        },
        "trace_tail": res.get("trace_tail"),
    }
    text = json.dumps(body, indent=1, default=_jsonable, sort_keys=True)
    h = hashlib.sha256(text.encode()).hexdigest()[:10]
    path = os.path.join(d, f"{case.get('seed', 0)}-{h}{tag}.json")
    with open(path, "w") as f:
        f.write(text)
    return path


def replay_file(path):
    """Re-execute a replay file in this process; returns (reproduced, result)."""
    body = json.load(open(path))
    res = run_case(body["engine"], body["case"])
    exp = body["expect"]
    ok = (
        not res.get("harness_error")
        and has_class(res, exp["cls"])
        and (exp.get("digest") is None or res.get("digest") == exp["digest"])
    )
    put_first(res, exp["cls"])
    return ok, res, body


def replay_fresh(path, hashseed="0"):
    """Replay in a fresh interpreter; returns True if reproduced exactly."""
    e = dict(os.environ)
    e["PYTHONHASHSEED"] = hashseed
    e["EKOSIM_NO_REEXEC"] = "1"
    p = subprocess.run(
        [sys.executable, os.path.join(env.VERIF, "check.py"), "--replay", path, "--quiet"],
        env=e,
        capture_output=True,
        text=True,
        timeout=900,
    )
    return p.returncode == EXIT_VIOLATION and "REPRODUCED" in p.stdout, p.stdout + p.stderr


# ---------------------------------------------------------------------------
# known findings


def load_known(prop):
    path = os.path.join(env.VERIF, "known_findings.json")
    if not os.path.exists(path):
        return []
    data = json.load(open(path))
    return [f for f in data.get("findings", []) if f.get("property") == prop and f.get("status") == "known"]


def match_known(known, viol):
    """A finding is identified by violation class + key (specific site/history)."""
    for f in known:
        if f.get("cls") == viol.get("cls") and f.get("key") == viol.get("key"):
            return f
    return None


# ---------------------------------------------------------------------------
# evidence


def write_evidence(prop, tier, seed, level, coverage, wall, violations, assumptions):
    d = os.path.join(env.VERIF, "evidence")
    os.makedirs(d, exist_ok=True)
    body = {
        "property_id": prop,
        "tier": tier,
        "seed": int(seed),
        "level": level,
        "coverage": coverage,
        "assumptions": assumptions,
        "wall_s": round(float(wall), 3),
        "violations": int(violations),
    }
    path = os.path.join(d, f"{prop}.json")
    tmp = path + ".tmp"
    with open(tmp, "w") as f:
        json.dump(body, f, indent=1, default=_jsonable, sort_keys=True)
    os.replace(tmp, path)
    return path


def merge_counts(dst, src):
    for k, v in (src or {}).items():
        dst[k] = dst.get(k, 0) + v
    return dst
