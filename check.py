#!/venv/bin/python
"""Entry point of every check.

  check.py <ID> --tier quick|thorough [--seed N] [--jobs 16] [--runs N]
  check.py --replay <file>
  check.py <ID> --selftest determinism [--runs N]
  check.py <ID> --digests --seeds a:b --jobs N      (used by the self-test)

Exit 0: property held on everything explored.  Exit 1: VIOLATION line(s).
Exit 2: HARNESS-ERROR (never a violation, never a pass).
"""

import argparse
import json
import os
import sys

VERIF = os.path.dirname(os.path.abspath(__file__))
sys.path.insert(0, VERIF)

from ekosim import env  # noqa: E402

env.reexec_with_hashseed("0")
env.setup()

from ekosim import batch, registry  # noqa: E402


def out(*a):
    print(*a, flush=True)


def do_replay(path, quiet=False):
    ok, res, body = batch.replay_file(path)
    if res.get("harness_error"):
        out("HARNESS-ERROR during replay:\n" + res["harness_error"])
        return batch.EXIT_HARNESS
    if not quiet:
        out(json.dumps({k: v for k, v in res.items() if k in ("violations", "digest")}, indent=1, default=batch._jsonable)[:4000])
    if ok:
        out(f"REPRODUCED property={body['property']} cls={body['expect']['cls']} digest={res.get('digest')}")
        out(f"VIOLATION property={body['property']} replay={path}")
        return batch.EXIT_VIOLATION
    if res["violations"]:
        out(f"NOT-IDENTICAL: got cls={batch.violation_class(res)} digest={res.get('digest')} expected {body['expect']}")
        out(f"VIOLATION property={body['property']} replay={path}")
        return batch.EXIT_VIOLATION
    out(f"NOT-REPRODUCED property={body['property']} (no violation on this tree)")
    return batch.EXIT_OK


def housekeeping():
    """Remove scratch directories that a killed earlier run left behind (> 6 h old)."""
    import shutil
    import time

    base = os.environ.get("EKOSIM_TMP") or os.environ.get("TMPDIR") or "/tmp"
    try:
        now = time.time()
        for name in os.listdir(base):
            if name.startswith("ekosim-"):
                full = os.path.join(base, name)
                try:
                    if now - os.stat(full).st_mtime > 6 * 3600:
                        shutil.rmtree(full, ignore_errors=True)
                except OSError:
                    pass
    except OSError:
        pass


def main():
    ap = argparse.ArgumentParser()
    ap.add_argument("prop", nargs="?")
    ap.add_argument("--tier", default=os.environ.get("VERIF_TIER", "quick"))
    ap.add_argument("--seed", type=int, default=int(os.environ.get("VERIF_SEED", "0")))
    ap.add_argument("--jobs", type=int, default=int(os.environ.get("VERIF_JOBS", str(max(2, min(16, os.cpu_count() or 16))))))
    ap.add_argument("--runs", type=int, default=None)
    ap.add_argument("--replay")
    ap.add_argument("--quiet", action="store_true")
    ap.add_argument("--selftest")
    ap.add_argument("--digests", action="store_true")
    ap.add_argument("--seeds")
    ap.add_argument("--stage", type=int, default=None, help="with --digests: an extra stage of the property instead of its main engine")
    ap.add_argument("--no-evidence", action="store_true")
    ap.add_argument("--only-key", default=None, help="debug: only report violation groups whose key contains this")
    ap.add_argument("--budget", type=float, default=None, help="wall-clock budget in seconds")
    args = ap.parse_args()

    housekeeping()
    try:
        env.assert_eko_from_repo()
        if args.replay:
            return do_replay(args.replay, args.quiet)
        if not args.prop:
            ap.error("property id required")
        if args.digests:
            return registry.print_digests(args)
        if args.selftest:
            return registry.selftest(args)
        return registry.run_check(args)
    except batch.HarnessError as e:
        out(f"HARNESS-ERROR {e}")
        return batch.EXIT_HARNESS
    except Exception as e:  # noqa
        import traceback

        out("HARNESS-ERROR " + "".join(traceback.format_exception(e)))
        return batch.EXIT_HARNESS


if __name__ == "__main__":
    sys.exit(main())
