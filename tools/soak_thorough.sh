#!/bin/bash
# tools/soak_thorough.sh <first> <last>: thorough tier of every check for VERIF_SEED=first..last, no evidence.
# Any line with exit!=0 is a false alarm, a harness bug, or a genuine defect that seed 0 did not reach.
A=$1; B=$2
for s in $(seq $A $B); do
  for p in C24 C17 C37 C39 C36 C02 C03 C47 C38; do
    out=$(VERIF_SEED=$s /venv/bin/python check.py $p --tier thorough --no-evidence 2>&1); rc=$?
    echo "seed=$s $p exit=$rc $(echo "$out" | grep -E 'thorough:' | tail -1)"
    if [ $rc -ne 0 ]; then echo "$out" | grep -E "VIOLATION|HARNESS|UNSTABLE|^  " | head -8; fi
  done
done
