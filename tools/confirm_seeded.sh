#!/bin/bash
# tools/confirm_seeded.sh <ID> <A|B>   — confirm a seeded change in a scratch worktree of /repo HEAD
ID=$1; V=$2
SRC=${SEEDBASE:-/tmp/seed}/out-$ID/$V
WT=/tmp/confirm-$ID-$V
git -C /repo worktree remove --force $WT >/dev/null 2>&1
git -C /repo worktree add --detach $WT HEAD >/dev/null 2>&1 || { echo "$ID $V worktree failed"; exit 2; }
cd $WT
R1=$(NUMBA_DISABLE_JIT=1 PYTHONPATH=$WT/src timeout 300 /venv/bin/python $SRC/demo.py >/tmp/confirm-$ID-$V.clean.log 2>&1; echo $?)
git apply $SRC/patch.diff || { echo "$ID $V patch does not apply to HEAD"; git -C /repo worktree remove --force $WT; exit 2; }
R2=$(NUMBA_DISABLE_JIT=1 PYTHONPATH=$WT/src timeout 300 /venv/bin/python $SRC/demo.py >/tmp/confirm-$ID-$V.patched.log 2>&1; echo $?)
B=$(/verif/tools/baseline.sh $WT | head -1)
cd /
git -C /repo worktree remove --force $WT
echo "$ID $V demo_clean_exit=$R1 demo_patched_exit=$R2 baseline: $B"
