#!/usr/bin/env python3
"""Sensitivity self-test: apply each mutant of mutants/mutants.json to a scratch
worktree of /repo (never to /repo itself), run the property's quick check against
it (EKOSIM_REPO), expect exit 1; optionally also run the pinned suite to see
whether the existing tests would notice.  Writes mutants/results.json.

  tools/mutants.py [--only M01,M02] [--suite] [--jobs 16] [--tier quick]
"""
import argparse
import json
import os
import subprocess
import sys
import time

VERIF = os.path.dirname(os.path.dirname(os.path.abspath(__file__)))
SCRATCH = "/var/tmp"


def sh(*a, **kw):
    return subprocess.run(a, capture_output=True, text=True, **kw)


def main():
    ap = argparse.ArgumentParser()
    ap.add_argument("--only")
    ap.add_argument("--suite", action="store_true")
    ap.add_argument("--jobs", default="16")
    ap.add_argument("--tier", default="quick")
    args = ap.parse_args()
    muts = json.load(open(os.path.join(VERIF, "mutants", "mutants.json")))
    if args.only:
        keep = set(args.only.split(","))
        muts = [m for m in muts if m["id"] in keep]
    results = []
    for m in muts:
        wt = os.path.join(SCRATCH, f"ekosim-mut-{m['id']}")
        sh("git", "-C", "/repo", "worktree", "remove", "--force", wt)
        r = sh("git", "-C", "/repo", "worktree", "add", "--detach", wt, "HEAD")
        if r.returncode:
            print(m["id"], "worktree failed", r.stderr)
            continue
        try:
            path = os.path.join(wt, m["file"])
            src = open(path).read()
            if src.count(m["old"]) != 1:
                print(f"{m['id']}: pattern found {src.count(m['old'])} times in {m['file']} - skipped")
                results.append(dict(id=m["id"], prop=m["prop"], status="pattern-mismatch"))
                continue
            src = src.replace(m["old"], m["new"])
            if m.get("prepend"):
                src = src.replace(m["prepend_after"], m["prepend_after"] + m["prepend"], 1)
            open(path, "w").write(src)
            c = sh(sys.executable.replace("python3", "python3"), "-c", f"import ast,sys; ast.parse(open({path!r}).read())")
            env = dict(os.environ, EKOSIM_REPO=wt)
            t0 = time.time()
            p = sh("/venv/bin/python", os.path.join(VERIF, "check.py"), m["prop"], "--tier", args.tier, "--no-evidence", "--jobs", args.jobs, env=env)
            dt = time.time() - t0
            lines = [l for l in p.stdout.splitlines() if l.startswith("  ")]
            first = lines[0].strip()[:160] if lines else ""
            suite = None
            if args.suite:
                b = sh(os.path.join(VERIF, "tools", "baseline.sh"), wt)
                suite = b.stdout.strip().splitlines()[0] if b.stdout.strip() else b.stderr[-200:]
            rec = dict(id=m["id"], prop=m["prop"], note=m["note"], check_exit=p.returncode, caught=p.returncode == 1, seconds=round(dt, 1), first_violation=first, suite=suite)
            results.append(rec)
            print(f"{m['id']} {m['prop']} exit={p.returncode} {'CAUGHT' if p.returncode == 1 else 'MISSED' if p.returncode == 0 else 'HARNESS'} {dt:.0f}s  {first[:110]}  | suite: {suite}", flush=True)
            if p.returncode == 2:
                print(p.stdout[-800:])
        finally:
            sh("git", "-C", "/repo", "worktree", "remove", "--force", wt)
    out = os.path.join(VERIF, "mutants", "results.json")
    prev = []
    if args.only and os.path.exists(out):
        prev = [r for r in json.load(open(out)) if r["id"] not in {x["id"] for x in results}]
    json.dump(sorted(prev + results, key=lambda r: r["id"]), open(out, "w"), indent=1)


if __name__ == "__main__":
    main()
