#!/bin/bash
# tools/try_seeded.sh <patch.diff> <PROP> [extra check.py args]
# Applies a seeded change to /repo, runs the property's check, reverts.
P=$1; shift; PROP=$1; shift
cd /repo || exit 2
git diff --quiet || { echo "/repo has uncommitted changes"; exit 2; }
git apply "$P" || { echo "patch does not apply"; exit 2; }
cd /verif
/venv/bin/python check.py $PROP --no-evidence "$@" 2>&1 | tail -8
rc=${PIPESTATUS[0]}
git -C /repo checkout -- . 
echo "exit=$rc"
