#!/venv/bin/python
"""Measure, on the current tree, the worst deviation of every harmonic-cache key
from (a) its definition at integer N <= 60, (b) its one-step recurrence over
the complex domain.  Writes ekosim/models/harmonic_tol.json (tolerance = 10 x
worst, with floors).  Development-time tool: run on the UNCHANGED tree only.
"""

import json
import os
import sys

sys.path.insert(0, os.path.dirname(os.path.dirname(os.path.abspath(__file__))))
from ekosim import env  # noqa

env.setup()
import numpy as np  # noqa

from ekosim.models import harmonic_defs as hd  # noqa
from ekore.harmonics import cache as c  # noqa


def fill(N, flag, keys=hd.KEYS):
    arr = c.reset()
    out = {}
    for k in keys:
        out[k] = complex(c.get(hd.IDX[k], arr, N, flag))
    return out


def main():
    rng = np.random.default_rng(12345)
    defdev = {}
    for n in range(1, 61):
        flag = n % 2 == 0
        vals = fill(complex(n), flag)
        for k in hd.KEYS:
            ref = hd.definition(k, n)
            dev = abs(vals[k] - ref) / max(1.0, abs(ref))
            if dev > defdev.get(k, (0, 0))[0]:
                defdev[k] = (dev, n)
    recdev = {}
    conjdev = 0.0
    n_samples = int(sys.argv[1]) if len(sys.argv) > 1 else 4000
    for i in range(n_samples):
        if i % 3 == 0:
            N = complex(rng.uniform(0.5, 50.0), rng.uniform(-60.0, 60.0))
        elif i % 3 == 1:
            N = complex(rng.uniform(0.5, 4.0), rng.uniform(-60.0, 60.0))
        else:
            N = complex(rng.uniform(0.5, 50.0), rng.uniform(-3.0, 3.0))
        flag = bool(rng.integers(0, 2))
        lo = fill(N, flag)
        hi = fill(N + 1.0, not flag)
        eta_next = -1.0 if flag else 1.0
        for name, res, scale in hd.recurrence_residuals(N, eta_next, lo, hi):
            dev = abs(res) / scale
            if dev > recdev.get(name, (0, 0))[0]:
                recdev[name] = (dev, [N.real, N.imag, flag])
        cj = fill(N.conjugate(), flag)
        for k in hd.KEYS:
            dev = abs(cj[k] - lo[k].conjugate()) / max(1.0, abs(lo[k]))
            conjdev = max(conjdev, dev)
    tol = dict(
        definition={k: max(1e-12, 10 * v[0]) for k, v in defdev.items()},
        recurrence={k: max(1e-11, 10 * v[0]) for k, v in recdev.items()},
        conjugation=max(1e-12, 10 * conjdev),
        measured=dict(definition={k: v for k, v in defdev.items()}, recurrence={k: v for k, v in recdev.items()}, conjugation=conjdev, samples=n_samples),
    )
    path = os.path.join(os.path.dirname(os.path.dirname(os.path.abspath(__file__))), "ekosim", "models", "harmonic_tol.json")
    json.dump(tol, open(path, "w"), indent=1)
    for k in hd.KEYS:
        print(f"{k:8s} def {defdev[k][0]:.2e} @N={defdev[k][1]}")
    for k, v in recdev.items():
        print(f"{k:18s} rec {v[0]:.2e} @ {v[1]}")
    print("conj", conjdev)


if __name__ == "__main__":
    main()
