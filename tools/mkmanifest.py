#!/usr/bin/env python3
"""Regenerate /verif/MANIFEST.json (claimed checks + not_applicable list)."""

import json
import os
import re
import sys

VERIF = os.path.dirname(os.path.dirname(os.path.abspath(__file__)))

TECH = "deterministic simulation with fault injection"

CHECKS = {
    "C02": dict(
        engine="runner",
        category="exploration",
        technique=TECH + " (fault-free configuration): real solve under the file-system seam (permuted listings, seeded temp names, simulated pool), oracle over the recorded history (computation-step call log, seam trace) and the archive read back independently, against an independent flavour-number path model",
        text=(
            "Seeded cards (1-5 targets, paths of 1-7 blocks, 0-3 matchings, upward / downward / mixed across targets, targets on a matching scale, one ulp beside it, equal to the initial point; any matching ratios) are solved by the real runner; "
            "then (1) every part was computed exactly once and every parts file opened for writing exactly once, (2) the archived recipes and parts equal the union over targets of the blocks of an independent 20-line reference of the flavour-number path - nothing missing, nothing extra, no duplicates, "
            "(3) every stored operator equals P_n...P_1 (later steps on the left) of the ARCHIVED parts looked up by physical identity, to rtol 1e-10. Bulk runs use stub physics (dense, non-commuting pseudo-random parts keyed by the recipe header), a sample runs the real interpreted kernels."
        ),
        note="The error array is not part of the verdict (its propagation rule is C44); the cliff flag is not part of a part's identity; product association order is not prescribed (rtol 1e-10, atol 1e-13*max).",
        design="DESIGN.md section 4 (C02)",
    ),
    "C03": dict(
        engine="pool",
        category="exploration",
        technique=TECH + ": the integration worker pool replaced by SimPool (seeded cooperative scheduler, pickled transport, stdlib chunking), seeded search over pool widths, chunk->worker assignments and delivery orders; plus all target permutations and subsets",
        text=(
            "Integration level: one part (evolution segment or matching, real interpreted kernels) is computed on the sequential path and under SimPool for several widths (incl. negative core counts resolved against a simulated cpu count) and seeded schedules; results must be bitwise equal. "
            "Runner level: a baseline solve on one core is compared bitwise, target by target, with solves of every permutation of the targets, every proper non-empty subset, and the same card on simulated pools. "
            "Integration-level cases use 2-8 point grids (incl. sizes that are not multiples of the pool width), negative / larger-than-grid core counts and a small share of QCD x QED cards; one run per case injects a transient fault (OSError / MemoryError / FloatingPointError / ValueError) inside ONE pool worker: the computation must raise or still return the sequential result. "
            "The thorough tier additionally compares a sample against the real multiprocessing (fork) Pool to validate the stub."
        ),
        note="SimPool models multiprocessing.Pool at item granularity with pickled transport; per-worker process-global state and killed workers are not modelled. Error arrays are compared as a probe only.",
        design="DESIGN.md section 4 (C03), 2.3",
    ),
    "C17": dict(
        engine="couplings",
        category="exploration",
        technique=TECH + " at library scale: a long-lived Couplings object (memo cache included) driven through seeded histories of queries, caller-side mutations of returned arrays (alias-mutation faults) and pickle clones, against a memoryless reference model",
        text=(
            "Per run one seeded configuration (QCD order 1-4, QED order 0-2, running alpha_em on/off, exact/expanded, POLE/MSBAR, masses, matching ratios, reference point anywhere incl. exactly on a matching scale and in a non-natural nf patch) and a history of 1-30 operations: "
            "a / a_s / a_em queries over a pool with every matching scale, the reference scale, m_tau^2 and their near neighbours, repeats, in-place mutation of the returned array by the caller, pickle round-trip of the object (what each pool task does). "
            "Every answer must be bitwise the answer of a freshly constructed object; both must raise or both return."
        ),
        note="Reference = same code on a fresh object (the property is history independence, not correctness of the RGE solution, which is C15).",
        design="DESIGN.md section 5 (C17)",
    ),
    "C24": dict(
        engine="hcache",
        category="exploration",
        technique=TECH + " at library scale: seeded lookup histories over several harmonic-sum caches (N, N+1, conj N), oracle over the recorded history: order independence, slot audit, cross-cache recurrences, exact definitions at integer N",
        text=(
            "Per run 1-3 base points (integers 1-60, or complex with Re N in [0.5,50], |Im N| up to 60), three caches each (N; N+1 with flipped parity; conj N) and a seeded history of get(key) lookups (short, random with repeats, full permutations, reverse order, interleaved between caches). "
            "Every returned value must equal the value of a fresh single-lookup cache; at integer N with the matching parity flag it must equal the exact rational nested sum (or the defining integral for g3); after the history every filled slot must equal direct evaluation (catches a lookup poisoning another key's slot); "
            "the one-step recurrences between the caches at N and N+1 and conjugation between N and conj N are checked as cross-invariants."
        ),
        note="Only the cache-resident functions are covered; the clause on Mellin transforms of log/g-functions outside the cache is pure quadrature and is not decided by this technique. Tolerances are 10x the worst deviation measured on the unchanged tree.",
        design="DESIGN.md section 5 (C24)",
    ),
    "C47": dict(
        engine="repro",
        category="exploration",
        technique=TECH + ": the same cards solved in two fresh interpreters under two adversarially different simulated environments (PYTHONHASHSEED, temp names, cwd, listing order, clock, cpu count -> pool width, pool schedule), archives compared member by member",
        text=(
            "Each pair runs the full solver (real interpreted kernels) twice; everything the simulator owns differs between the two runs. The two archives must have the same member names, bitwise-identical decoded operator arrays (final operators and parts), and byte-identical YAML members (cards, metadata, recipes, headers)."
        ),
        note="Raw .npz bytes are not compared (np.savez embeds zip timestamps); tar mtimes/member order are ignored; error-array-only differences are a probe.",
        design="DESIGN.md section 4 (C47)",
    ),
    "C38": dict(
        engine="crash",
        category="fault_enumeration",
        technique=TECH + ": single (thorough: also paired) faults enumerated from the seam trace of seeded sessions, oracle on the target path + clean re-run",
        text=(
            "Every seeded session (managed solve, edit session on an existing archive, builder session) is first run fault-free under the file-system seam to record its event trace; "
            "then it is re-run once per enumerated fault (quick: a stratified sample of sites with the commit phase over-weighted; thorough: every seam event x every applicable fault kind "
            "(errno before the effect, short write, failing close), every computation step, every operation boundary for user exceptions, sampled KeyboardInterrupts at traced lines, plus a second fault during the re-run). "
            "After each faulted run an independent archive reader decides: session raised -> target path absent / logically identical to its previous complete content; fault absorbed -> equals the fault-free result; "
            "then one clean re-run on the same path must succeed and reproduce the fault-free result (bounded liveness). Enumeration per workload is complete in the thorough tier; workloads themselves are sampled. "
            "Workloads also include EKO.deepcopy and ekobox.utils.ekos_product (in place / to a new path), and 30% run with the temp area 'on another file system' (cross-directory renames fail with EXDEV); 30% of the edit / builder sessions end their block with an explicit eko.dump() (a failure after a dump that RETURNED may leave the former or the dumped = final content, a failure inside the dump only the former). "
            "Further fault modes: hard kills (process death at a seam event: no handler or finalizer of the dead session touches the disk again; whatever is on disk, e.g. a partial <archive>.tmp, is what the next process finds), a SECOND fault on events that only exist because of the first one (error handling, fallbacks, clean-up code), faults inside pool workers for real-physics workloads on 2-3 cores, garbage collection at the end of every simulated session (finalizers run at a defined instant), and detection of state a failed session leaves behind in the process (a later run diverging from the reference trace is followed by a fault-free run, which must still succeed). "
            "A second stage runs multi-session store histories (create / puts / metadata, parts, recipe edits / close / reopen ...) twice - fault-free to record the trace, then with 1-3 faults drawn from it: an operation failing through an injected fault kills its session, the user restarts, and at every such point the archive must hold exactly the last committed content (crash recovery across sessions, checked with the persistent-map model and the independent reader)."
        ),
        note="Faults land at seam boundaries and traced Python lines, not inside C calls; no power-loss model (eko never fsyncs); stub physics in most workloads; interrupts that land after the final os.replace are accepted as 'committed'.",
        design="DESIGN.md section 5 (C38)",
    ),
    "C37": dict(
        engine="store",
        category="exploration",
        technique=TECH + " (fault-free configuration): seeded operation histories on a real EKO vs an executable persistent-map model, checked after every operation, under permuted directory listings and seeded temp names",
        text=(
            "Seeded histories (create/put/overwrite/read/unload/context/membership/approx/iterate/items/close/reopen ro+rw/abandon) over a pool of 3-6 evolution points with ulp-apart, within- and outside-tolerance pairs are executed "
            "in lock step on a real EKO and on a model 'dictionary made persistent on close'; after every operation the visible key set (iteration, evolgrid, mu2grid, membership of every pool key) must equal the model's, every read value must be bitwise the last written one, "
            "absent reads must raise, approx must agree (unique / none / ambiguous); a final audit re-reads the archive with an independent reader. "
            "30% of the histories interleave a second EKO (another archive, same evolution points) that is alive at the same time; 30% open read/edit sessions through relative paths and change the working directory in between; durable junk (complete-looking newer <archive>.tmp, truncated .tmp, .bak) is planted next to the archive between sessions; overwrites include bitwise 'twins' (==-equal, different sign of zeros / NaN payloads). "
            "Short histories are over-sampled; this is sampling, not the bounded-exhaustive enumeration the quantifier mentions."
        ),
        note="Exception types, object identity and iteration order are not part of the oracle; approx queries within 0.1% of the tolerance boundary are not judged.",
        design="DESIGN.md section 3",
    ),
    "C36": dict(
        engine="store",
        category="exploration",
        technique=TECH + " (fault-free configuration): seeded round-trip scripts create -> puts -> close -> read+verify -> edit -> change subset -> close -> read+verify, under permuted directory listings",
        text=(
            "Seeded round trips with operator shapes up to 14x8x14x8, optional error arrays, values containing signed zeros, infinities, subnormals and NaNs with payloads, evolution points given as Python float / int / NumPy float64 (also taken from an array) / NumPy int64, "
            "ulp-apart scales, and randomly varied cards (every enum, orders, schemes, grids). After each close the archive is re-read through eko: evolution-point sets equal, arrays bitwise equal (tobytes), theory/operator cards and metadata NaN-aware equal; "
            "after an edit session everything not explicitly changed must be preserved, and what was changed (operators - also by bitwise 'twins' of the value already loaded -, metadata through eko.xgrid / eko.update() / the metadata container itself, parts, recipes) must be there."
        ),
        note="Cards are compared through their raw (dict) form, NaN-aware; dataclass == is not used because POLE cards carry nan reference scales.",
        design="DESIGN.md section 3",
    ),
    "C39": dict(
        engine="store",
        category="exploration",
        technique=TECH + " (fault-free configuration): seeded sequences of store attempts and harmless operations on read-only and closed EKOs, archive sha256 compared before/after, seam trace scanned for mutating events on the archive",
        text=(
            "Seeded histories put an EKO into read-only, closed-after-write, closed-after-read or mixed state and then issue store attempts (eko[ep]=, operators[]=, parts[]=, parts_matching[]=, load_recipes, recipes[]=, xgrid=, update(), dump()) interleaved with reads, unloads, iteration, approx, dump to another path and repeated close(); "
            "every store attempt must raise - also for headers the inventories already know and for the same refused store repeated - and after every operation and at session end the archive's sha256 and size must be unchanged, also with junk left next to the archive by hard-killed processes (newer complete-looking / truncated <archive>.tmp, .bak) and with writes through the metadata container below the EKO API. In a third of the closed-after-write histories the used Builder is asked to build() again first (a retry in user code; whether that raises is not demanded): the CLOSED handle must go on refusing every store and the archive must stay byte-identical."
        ),
        note="Only 'raises' is demanded for store attempts, not the exception type; reads/unloads/repeated close need not raise, for them only 'archive bytes unchanged' is demanded.",
        design="DESIGN.md section 3",
    ),
}


def main():
    design = open(os.path.join(VERIF, "DESIGN.md")).read()
    na_reasons = {}
    for line in design.splitlines():
        m = re.match(r"\* (C\d\d) (.*)", line)
        if m:
            na_reasons[m.group(1)] = m.group(2).strip()
    ids = [json.loads(l)["id"] for l in open(os.path.join(VERIF, "properties.jsonl"))]
    planned = ["C02", "C03", "C17", "C24", "C36", "C37", "C38", "C39", "C47"]
    checks = []
    for pid in ids:
        if pid not in CHECKS:
            continue
        c = CHECKS[pid]
        checks.append(
            dict(
                property_id=pid,
                quick_cmd=f"/venv/bin/python /verif/check.py {pid} --tier quick",
                thorough_cmd=f"/venv/bin/python /verif/check.py {pid} --tier thorough",
                evidence_file=f"/verif/evidence/{pid}.json",
                replay_cmd_template="/venv/bin/python /verif/check.py --replay {path}",
                engine=c["engine"],
                level_claimed=dict(category=c["category"], text=c["text"], design_ref=c["design"]),
                level_note=c["note"],
                technique=c["technique"],
            )
        )
    na = []
    for pid in ids:
        if pid in CHECKS:
            continue
        if pid in planned:
            na.append(dict(property_id=pid, reason="deterministic-simulation check under construction (DESIGN.md); not claimed until its engine is registered"))
        else:
            na.append(dict(property_id=pid, reason="not a simulation target: " + na_reasons.get(pid, "pure function of its inputs")))
    engines = [
        dict(name="runner", path="ekosim/engines/runner.py", serves_properties=["C02"], kind_free_text="history + archive oracle on real solves"),
        dict(name="pool", path="ekosim/engines/pool.py", serves_properties=["C03"], kind_free_text="seeded schedules of the simulated worker pool; target permutations/subsets"),
        dict(name="couplings", path="ekosim/engines/couplings.py", serves_properties=["C17"], kind_free_text="query histories vs memoryless reference"),
        dict(name="hcache", path="ekosim/engines/hcache.py", serves_properties=["C24"], kind_free_text="lookup histories over harmonic caches"),
        dict(name="repro", path="ekosim/engines/repro.py", serves_properties=["C47"], kind_free_text="paired runs in fresh interpreters under different environments"),
        dict(name="crash", path="ekosim/engines/crash.py", serves_properties=["C38"], kind_free_text="fault enumeration over seam events of seeded sessions"),
        dict(name="store", path="ekosim/engines/store.py", serves_properties=["C36", "C37", "C39"], kind_free_text="operation histories vs persistent-map reference model"),
    ]
    extra = os.path.join(VERIF, "tools", "manifest_extra.json")
    man = dict(
        version=1,
        setup_cmd="/venv/bin/python -c \"import sys; sys.path.insert(0,'/verif'); import ekosim.env as e; e.setup(); e.assert_eko_from_repo(); import hypothesis\"",
        hooks=dict(
            guard="NNPDF_EKO_VERIF",
            enable="no source hooks exist: every seam is installed from the outside by patching module attributes at run time; checks import eko from /repo/src (current working tree), interpreted (NUMBA_DISABLE_JIT=1)",
            baseline_off_cmd="cd /repo && /venv/bin/python -m pytest -ra -q -p no:cacheprovider --timeout=900 --continue-on-collection-errors",
            source_commits=[],
            add_only=True,
        ),
        engines=[e for e in engines if any(p in CHECKS for p in e["serves_properties"])],
        checks=checks,
        notes="All checks: /venv/bin/python /verif/check.py <ID> --tier quick|thorough (VERIF_SEED honoured). Exit 0 held / 1 VIOLATION (replay file) / 2 HARNESS-ERROR. Fixes of genuine defects: see known_findings.json and DESIGN.md section 7.",
        not_applicable=na,
    )
    json.dump(man, open(os.path.join(VERIF, "MANIFEST.json"), "w"), indent=1)
    print(f"{len(checks)} checks, {len(na)} not applicable")


if __name__ == "__main__":
    main()
