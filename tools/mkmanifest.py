#!/usr/bin/env python3
"""Regenerate /verif/MANIFEST.json (claimed checks + not_applicable list)."""

import json
import os
import re
import sys

VERIF = os.path.dirname(os.path.dirname(os.path.abspath(__file__)))

TECH = "deterministic simulation with fault injection"

CHECKS = {
    "C38": dict(
        engine="crash",
        category="fault_enumeration",
        technique=TECH + ": single (thorough: also paired) faults enumerated from the seam trace of seeded sessions, oracle on the target path + clean re-run",
        text=(
            "Every seeded session (managed solve, edit session on an existing archive, builder session) is first run fault-free under the file-system seam to record its event trace; "
            "then it is re-run once per enumerated fault (quick: a stratified sample of sites with the commit phase over-weighted; thorough: every seam event x every applicable fault kind "
            "(errno before the effect, short write, failing close), every computation step, every operation boundary for user exceptions, sampled KeyboardInterrupts at traced lines, plus a second fault during the re-run). "
            "After each faulted run an independent archive reader decides: session raised -> target path absent / logically identical to its previous complete content; fault absorbed -> equals the fault-free result; "
            "then one clean re-run on the same path must succeed and reproduce the fault-free result (bounded liveness). Enumeration per workload is complete in the thorough tier; workloads themselves are sampled."
        ),
        note="Faults land at seam boundaries and traced Python lines, not inside C calls; no power-loss model (eko never fsyncs); stub physics in most workloads; interrupts that land after the final os.replace are accepted as 'committed'.",
        design="DESIGN.md section 5 (C38)",
    ),
    "C37": dict(
        engine="store",
        category="exploration",
        technique=TECH + " (fault-free configuration): seeded operation histories on a real EKO vs an executable persistent-map model, checked after every operation, under permuted directory listings and seeded temp names",
        text=(
            "Seeded histories (create/put/overwrite/read/unload/context/membership/approx/iterate/items/close/reopen ro+rw/abandon) over a pool of 3-6 evolution points with ulp-apart, within- and outside-tolerance pairs are executed "
            "in lock step on a real EKO and on a model 'dictionary made persistent on close'; after every operation the visible key set (iteration, evolgrid, mu2grid, membership of every pool key) must equal the model's, every read value must be bitwise the last written one, "
            "absent reads must raise, approx must agree (unique / none / ambiguous); a final audit re-reads the archive with an independent reader. Short histories are over-sampled; this is sampling, not the bounded-exhaustive enumeration the quantifier mentions."
        ),
        note="Exception types, object identity and iteration order are not part of the oracle; approx queries within 0.1% of the tolerance boundary are not judged.",
        design="DESIGN.md section 3",
    ),
    "C36": dict(
        engine="store",
        category="exploration",
        technique=TECH + " (fault-free configuration): seeded round-trip scripts create -> puts -> close -> read+verify -> edit -> change subset -> close -> read+verify, under permuted directory listings",
        text=(
            "Seeded round trips with operator shapes up to 14x8x14x8, optional error arrays, values containing signed zeros, infinities, subnormals and NaNs with payloads, evolution points given as Python float / int / NumPy float64 (also taken from an array) / NumPy int64, "
            "ulp-apart scales, and randomly varied cards (every enum, orders, schemes, grids). After each close the archive is re-read through eko: evolution-point sets equal, arrays bitwise equal (tobytes), theory/operator cards and metadata NaN-aware equal; "
            "after an edit session everything not explicitly changed must be preserved."
        ),
        note="Cards are compared through their raw (dict) form, NaN-aware; dataclass == is not used because POLE cards carry nan reference scales.",
        design="DESIGN.md section 3",
    ),
    "C39": dict(
        engine="store",
        category="exploration",
        technique=TECH + " (fault-free configuration): seeded sequences of store attempts and harmless operations on read-only and closed EKOs, archive sha256 compared before/after, seam trace scanned for mutating events on the archive",
        text=(
            "Seeded histories put an EKO into read-only, closed-after-write, closed-after-read or mixed state and then issue store attempts (eko[ep]=, operators[]=, parts[]=, parts_matching[]=, load_recipes, recipes[]=, xgrid=, update(), dump()) interleaved with reads, unloads, iteration, approx, dump to another path and repeated close(); "
            "every store attempt must raise and after every operation and at session end the archive's sha256 and size must be unchanged."
        ),
        note="Only 'raises' is demanded for store attempts, not the exception type; reads/unloads/repeated close need not raise, for them only 'archive bytes unchanged' is demanded.",
        design="DESIGN.md section 3",
    ),
}


def main():
    design = open(os.path.join(VERIF, "DESIGN.md")).read()
    na_reasons = {}
    for line in design.splitlines():
        m = re.match(r"\* (C\d\d) (.*)", line)
        if m:
            na_reasons[m.group(1)] = m.group(2).strip()
    ids = [json.loads(l)["id"] for l in open(os.path.join(VERIF, "properties.jsonl"))]
    planned = ["C02", "C03", "C17", "C24", "C36", "C37", "C38", "C39", "C47"]
    checks = []
    for pid in ids:
        if pid not in CHECKS:
            continue
        c = CHECKS[pid]
        checks.append(
            dict(
                property_id=pid,
                quick_cmd=f"/venv/bin/python /verif/check.py {pid} --tier quick",
                thorough_cmd=f"/venv/bin/python /verif/check.py {pid} --tier thorough",
                evidence_file=f"/verif/evidence/{pid}.json",
                replay_cmd_template="/venv/bin/python /verif/check.py --replay {path}",
                engine=c["engine"],
                level_claimed=dict(category=c["category"], text=c["text"], design_ref=c["design"]),
                level_note=c["note"],
                technique=c["technique"],
            )
        )
    na = []
    for pid in ids:
        if pid in CHECKS:
            continue
        if pid in planned:
            na.append(dict(property_id=pid, reason="deterministic-simulation check under construction (DESIGN.md); not claimed until its engine is registered"))
        else:
            na.append(dict(property_id=pid, reason="not a simulation target: " + na_reasons.get(pid, "pure function of its inputs")))
    engines = [
        dict(name="crash", path="ekosim/engines/crash.py", serves_properties=["C38"], kind_free_text="fault enumeration over seam events of seeded sessions"),
        dict(name="store", path="ekosim/engines/store.py", serves_properties=["C36", "C37", "C39"], kind_free_text="operation histories vs persistent-map reference model"),
    ]
    extra = os.path.join(VERIF, "tools", "manifest_extra.json")
    man = dict(
        version=1,
        setup_cmd="/venv/bin/python -c \"import sys; sys.path.insert(0,'/verif'); import ekosim.env as e; e.setup(); e.assert_eko_from_repo(); import hypothesis\"",
        hooks=dict(
            guard="NNPDF_EKO_VERIF",
            enable="no source hooks exist: every seam is installed from the outside by patching module attributes at run time; checks import eko from /repo/src (current working tree), interpreted (NUMBA_DISABLE_JIT=1)",
            baseline_off_cmd="cd /repo && /venv/bin/python -m pytest -ra -q -p no:cacheprovider --timeout=900 --continue-on-collection-errors",
            source_commits=[],
            add_only=True,
        ),
        engines=[e for e in engines if any(p in CHECKS for p in e["serves_properties"])],
        checks=checks,
        notes="All checks: /venv/bin/python /verif/check.py <ID> --tier quick|thorough (VERIF_SEED honoured). Exit 0 held / 1 VIOLATION (replay file) / 2 HARNESS-ERROR. Fixes of genuine defects: see known_findings.json and DESIGN.md section 7.",
        not_applicable=na,
    )
    json.dump(man, open(os.path.join(VERIF, "MANIFEST.json"), "w"), indent=1)
    print(f"{len(checks)} checks, {len(na)} not applicable")


if __name__ == "__main__":
    main()
