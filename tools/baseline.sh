#!/bin/bash
# Run the pinned test-suite (guard off) on a source tree and compare the set of
# passing tests with /root/.vp/BASELINE.json (380 stable passes).
#   tools/baseline.sh [repo-root]      default /repo
set -u
ROOT=${1:-/repo}
OUT=$(mktemp /tmp/baseline-XXXXXX.xml)
cd "$ROOT" || exit 2
env -u NNPDF_EKO_VERIF PYTHONPATH="$ROOT/src" /venv/bin/python -m pytest -q -p no:cacheprovider --timeout=900 \
  --continue-on-collection-errors --no-cov --junitxml="$OUT" >/tmp/baseline-last.log 2>&1
/venv/bin/python - "$OUT" <<'EOF'
import json, sys
import xml.etree.ElementTree as ET
base = json.load(open('/root/.vp/BASELINE.json'))
stable = set(base['stable_pass'])
passed = set()
for tc in ET.parse(sys.argv[1]).getroot().iter('testcase'):
    if any(ch.tag in ('failure', 'error', 'skipped') for ch in tc):
        continue
    passed.add(f"{tc.get('classname')}::{tc.get('name')}")
missing = sorted(stable - passed)
print(f"passed={len(passed)} stable={len(stable)} stable_missing={len(missing)}")
for m in missing[:20]:
    print("  MISSING", m)
sys.exit(1 if missing else 0)
EOF
rc=$?
rm -f "$OUT"
exit $rc
