#!/bin/bash
# tools/soak.sh <first> <last> [props...]: quick tier of every (given) check for VERIF_SEED=first..last.
# Prints one line per (seed, property); any exit code other than 0 is a false alarm or a harness bug.
A=$1; B=$2; shift; shift
PROPS=${@:-C02 C03 C17 C24 C36 C37 C38 C39 C47}
cd /verif
for s in $(seq $A $B); do
  for p in $PROPS; do
    out=$(VERIF_SEED=$s /venv/bin/python check.py $p --tier quick --no-evidence 2>&1); rc=$?
    echo "seed=$s $p exit=$rc $(echo "$out" | tail -1)"
    if [ $rc -ne 0 ]; then echo "$out" | grep -E "VIOLATION|HARNESS|^  " | head -5; fi
  done
done
