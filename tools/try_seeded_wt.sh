#!/bin/bash
# tools/try_seeded_wt.sh <patch.diff> <PROP> [extra check.py args]
# Like try_seeded.sh but leaves /repo alone: the patch is applied to a scratch
# worktree of /repo HEAD and the check is pointed at it with EKOSIM_REPO.
P=$(readlink -f $1); shift; PROP=$1; shift
WT=/var/tmp/ekosim-try-$$
git -C /repo worktree add --detach $WT HEAD >/dev/null 2>&1 || exit 2
# older patches were written against earlier commits of /repo: plain, then reduced context, then 3-way
( cd $WT && { git apply "$P" 2>/dev/null || git apply -C1 "$P" 2>/dev/null || git apply -3 "$P" >/dev/null 2>&1; } ) || { echo "patch does not apply to /repo HEAD (see base_commit in meta.json)"; git -C /repo worktree remove --force $WT; echo "exit=2"; exit 2; }
cd /verif
EKOSIM_REPO=$WT /venv/bin/python check.py $PROP --no-evidence "$@" 2>&1 | tail -8
rc=${PIPESTATUS[0]}
git -C /repo worktree remove --force $WT
echo "exit=$rc"
