#!/bin/bash
# tools/seeded_matrix.sh [tier]: run every seeded change against the check of its property
# (meta.json "check_with" overrides the property) in a scratch worktree (+ EKOSIM_REPO, /repo
# untouched) and write seeded/RESULTS.txt
TIER=${1:-quick}
cd /verif
OUT=seeded/RESULTS.txt
echo "# seeded change | check | exit (1 = caught) | first violation line     (tier=$TIER, $(date -u +%F))" > $OUT
for d in seeded/C*-*/; do
  n=$(basename $d); prop=${n%-*}
  props=$(python3 -c "import json;m=json.load(open('$d/meta.json'));print(' '.join(m.get('check_with',[m['property']])))")
  for p in $props; do
    r=$(tools/try_seeded_wt.sh $d/patch.diff $p --tier $TIER 2>&1)
    rc=$(echo "$r" | grep -o "exit=[0-9]*" | tail -1)
    first=$(echo "$r" | grep -E "^  " | head -1 | cut -c1-150)
    echo "$n | $p | $rc | $first" | tee -a $OUT
  done
done
